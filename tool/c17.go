package main

import (
	"fmt"
	"go/token"
	"go/types"
	"strings"

	"golang.org/x/tools/go/ssa"
)

func init() {
	register(&propDef{
		ID: "C17",
		Explain: "Decided clauses: R1 on the keyed path the handler runs only after Lock(key) succeeded and the re-check under the lock returned (false, nil); lookup and lock errors return without running it; " +
			"R2 the deferred Unlock(key) is registered on every path after a successful Lock before any return; R3 the response is recorded only after the handler succeeded, under the same key used for lock and lookup, from copied bytes; " +
			"R4 every field of the recorded response is written on record and read on replay, and round-trips through the generated codec; R5 MemoryLock touches its map only under l.mu, never blocks on a key mutex while holding l.mu, " +
			"counts the waiter before dropping l.mu and deletes an entry only at count ≤ 0; R6 the bypasses (Next(c), no key) reach c.Next() without any storage or lock call. " +
			"Not decided: at-most-once under storage faults after a successful handler, external Locker implementations, the schedules themselves (R1–R3, R5 are their structural preconditions).",
		Assume: []string{"cfg.Lock implements mutual exclusion per key", "deferred calls run at every return (go/ssa rundefers)"},
		Run:    runC17,
	})
}

const idemPkg = "middleware/idempotency"

func runC17(r *Run) {
	type ctxT struct {
		h       *ssa.Function
		lookup  *ssa.Function
		lock    callSite
		lookups []callSite
		next    ssa.Instruction
		key     ssa.Value
	}
	isNextName := func(s string) bool { return s == "("+fiberMod+".Ctx).Next" }
	get := func() ctxT {
		f := r.Fn(idemPkg, "New")
		var c ctxT
		for _, a := range handlerClosures(f) {
			c.h = a
		}
		r.need(c.h != nil, "idempotency.New returns a handler closure")
		for _, a := range f.AnonFuncs {
			if len(callsMatching(a, false, nameHasSuffix("v3.Storage).Get"))) > 0 && a != c.h {
				c.lookup = a
			}
		}
		r.need(c.lookup != nil, "the cached-response lookup closure")
		ls := callsMatching(c.h, false, nameHasSuffix("idempotency.Locker).Lock"))
		r.need(len(ls) == 1, "handler calls cfg.Lock.Lock once")
		c.lock = ls[0]
		c.key = c.lock.Common.Args[0]
		for _, cs := range callsIn(c.h, false) {
			if cs.Name == "var:maybeWriteCachedResponse" || cs.Name == c.lookup.String() {
				c.lookups = append(c.lookups, cs)
			}
		}
		r.need(len(c.lookups) == 2, "two lookups (fast path, under lock)")
		for _, in := range instrsWhere(c.h, func(in ssa.Instruction) bool { return isCallTo(in, isNextName) }) {
			if dom(c.lock.Block(), in.Block()) {
				c.next = in
			}
		}
		r.need(c.next != nil, "the protected c.Next() (dominated by Lock)")
		return c
	}
	tupleEdges := func(f *ssa.Function, call ssa.Value, idx int, pick func(br branch) (int, bool)) []edge {
		var out []edge
		for _, br := range branchesIn(f) {
			root := stripValue(br.Info.Root)
			if e, ok := root.(*ssa.Extract); ok && e.Tuple == call && e.Index == idx {
				if s, ok := pick(br); ok {
					out = append(out, edge{br.If.Block(), s})
				}
			}
			if idx < 0 && root == call {
				if s, ok := pick(br); ok {
					out = append(out, edge{br.If.Block(), s})
				}
			}
		}
		return out
	}

	r.rule("R1", "execute only under the key lock and after the re-check (E1)", func() {
		c := get()
		isNext := func(in ssa.Instruction) bool { return in == c.next }
		gate := func(name string, edges []edge, why string) {
			cut := map[edge]bool{}
			for _, e := range edges {
				cut[e] = true
			}
			_, hit := reach(entryOf(c.h), isNext, cut, nil)
			r.check(len(edges) > 0 && hit == nil, "keyed:"+name, r.pos(c.next), "handler unreachable with the `"+name+"` edge removed", why)
		}
		gate("lock-acquired", tupleEdges(c.h, c.lock.Value(), -1, func(br branch) (int, bool) { return br.nilSlot(true) }), "the handler can run although the key lock was not acquired")
		var under callSite
		for _, l := range c.lookups {
			if dom(c.lock.Block(), l.Block()) {
				under = l
			}
		}
		r.need(under.Instr != nil, "a lookup under the lock")
		gate("recheck-no-error", tupleEdges(c.h, under.Value(), 1, func(br branch) (int, bool) { return br.nilSlot(true) }), "the handler can run although the re-check under the lock failed")
		gate("recheck-not-cached", tupleEdges(c.h, under.Value(), 0, func(br branch) (int, bool) { return br.truthSlot(false) }), "the handler can run although a recorded response exists (duplicate execution)")
		// negative form for errors
		anyNext := func(in ssa.Instruction) bool { return isCallTo(in, isNextName) }
		var errEdges []edge
		errEdges = append(errEdges, tupleEdges(c.h, c.lock.Value(), -1, func(br branch) (int, bool) { return br.nilSlot(false) })...)
		for _, l := range c.lookups {
			errEdges = append(errEdges, tupleEdges(c.h, l.Value(), 1, func(br branch) (int, bool) { return br.nilSlot(false) })...)
		}
		r.atLeast("error edges", len(errEdges), 3)
		okNeg := true
		for _, e := range errEdges {
			if _, hit := reachEdge(e, anyNext, nil, nil); hit != nil {
				okNeg = false
			}
		}
		r.check(okNeg, "keyed:errors↛Next", r.fpos(c.h), "from every lookup/lock error edge c.Next() is unreachable", "a request whose lock acquisition or lookup failed still runs the handler")
		// a replayed response returns without the handler
		okHit := true
		for _, l := range c.lookups {
			for _, e := range tupleEdges(c.h, l.Value(), 0, func(br branch) (int, bool) { return br.truthSlot(true) }) {
				if _, hit := reachEdge(e, anyNext, nil, nil); hit != nil {
					okHit = false
				}
			}
		}
		r.check(okHit, "keyed:replayed↛Next", r.fpos(c.h), "after a replay the handler is unreachable", "the handler runs although the recorded response was replayed")
	})

	r.rule("R2", "deferred Unlock(key) registered on the success edge of Lock before any return (E2)", func() {
		c := get()
		isDeferUnlock := func(in ssa.Instruction) bool {
			d, ok := in.(*ssa.Defer)
			if !ok {
				return false
			}
			var fn *ssa.Function
			if mc, ok := d.Call.Value.(*ssa.MakeClosure); ok {
				fn = mc.Fn.(*ssa.Function)
			}
			if fn == nil {
				return strings.HasSuffix(calleeName(&d.Call), "idempotency.Locker).Unlock")
			}
			return len(callsMatching(fn, true, nameHasSuffix("idempotency.Locker).Unlock"))) > 0
		}
		es := tupleEdges(c.h, c.lock.Value(), -1, func(br branch) (int, bool) { return br.nilSlot(true) })
		r.need(len(es) == 1, "Lock error is tested")
		_, hit := reachEdge(es[0], orPred(isReturn, func(in ssa.Instruction) bool { return isCallTo(in, isNextName) }), nil, isDeferUnlock)
		r.check(hit == nil, "keyed:unlock-deferred-after-lock", r.pos(c.lock.Instr), "after a successful Lock the Unlock is deferred before anything can return or run the handler", "a return (or the handler) is reachable after Lock succeeded without the Unlock being deferred: the key stays locked forever")
		// same key
		sameKey := true
		for _, a := range anonFuncsDeep(c.h) {
			for _, u := range callsMatching(a, false, nameHasSuffix("idempotency.Locker).Unlock")) {
				if cellName(u.Common.Args[0]) != "key" {
					sameKey = false
				}
			}
		}
		r.check(sameKey, "keyed:unlock-same-key", r.pos(c.lock.Instr), "Unlock uses the captured key", "Unlock is called with a different key than Lock")
	})

	r.rule("R3", "record after a successful handler, under the same key, from copies (E10/E3)", func() {
		c := get()
		sets := callsMatching(c.h, false, nameHasSuffix("v3.Storage).Set"))
		r.need(len(sets) == 1, "handler calls Storage.Set once")
		es := tupleEdges(c.h, c.next.(*ssa.Call), -1, func(br branch) (int, bool) { return br.nilSlot(true) })
		cutOK := map[edge]bool{}
		for _, e := range es {
			cutOK[e] = true
		}
		_, hitSet := reach(pointAfter(c.next), func(in ssa.Instruction) bool { return in == sets[0].Instr }, cutOK, nil)
		okDom := len(es) > 0 && hitSet == nil
		r.check(okDom, "record:only-after-success", r.pos(sets[0].Instr), "Storage.Set is unreachable from the handler call with its err == nil edge removed", "a failed handler execution can be recorded as the answer")
		keyName := cellName(c.key)
		sk := sets[0].Common.Args[0]
		okKey := sk == c.key || (keyName != "" && cellName(sk) == keyName)
		for _, l := range c.lookups {
			lk := l.Common.Args[len(l.Common.Args)-1]
			if !(lk == c.key || (keyName != "" && cellName(lk) == keyName)) {
				okKey = false
			}
		}
		r.check(okKey, "record:same-key-everywhere", r.pos(sets[0].Instr), "Lock, both lookups and Set use the same key value", "lock, lookup and record do not use the same key")
		okCopy := false
		for _, fr := range fieldRefs(c.h) {
			if fr.Write && fr.Name == "idempotency.response.Body" {
				if call, _ := producerCall(fr.Val); call != nil && strings.HasSuffix(calleeName(&call.Call), "utils/v2.CopyBytes") {
					okCopy = true
				}
			}
		}
		r.check(okCopy, "record:body-copied", r.fpos(c.h), "the recorded body is a copy of the response buffer", "the recorded body aliases the response buffer (it changes when the buffer is reused)")
		// the key itself is a copy of the header value
		kc, _ := producerCall(derefCell(c.h, c.key))
		r.check(kc != nil && strings.HasSuffix(calleeName(&kc.Call), "utils/v2.CopyString"), "record:key-copied", r.pos(c.lock.Instr), "the key is a copy of the header value", "the key aliases the request header buffer")
	})

	r.rule("R4", "replay writes everything that was recorded; codec covers every field (E4)", func() {
		c := get()
		_, st := r.P.Struct(idemPkg, "response")
		r.need(st != nil, "idempotency.response")
		wr, rd, enc, dec := map[string]bool{}, map[string]bool{}, map[string]bool{}, map[string]bool{}
		for _, fr := range fieldRefs(c.h) {
			if fr.Write {
				wr[fr.Name] = true
			}
		}
		for _, fr := range fieldRefs(c.lookup) {
			if !fr.Write {
				rd[fr.Name] = true
			}
		}
		for _, fr := range fieldRefs(firstFn(r, idemPkg, "(*response).MarshalMsg", "(response).MarshalMsg")) {
			if !fr.Write {
				enc[fr.Name] = true
			}
		}
		for _, fr := range fieldRefs(firstFn(r, idemPkg, "(*response).UnmarshalMsg")) {
			if fr.Write || !fr.Write {
				dec[fr.Name] = true
			}
		}
		for i := 0; i < st.NumFields(); i++ {
			n := "idempotency.response." + st.Field(i).Name()
			r.check(wr[n] && rd[n] && enc[n] && dec[n], "response-field:"+n, r.fpos(c.lookup), "recorded, encoded, decoded and replayed",
				fmt.Sprintf("%s: recorded=%v encoded=%v decoded=%v replayed=%v — duplicates would receive a different answer than the first execution", n, wr[n], enc[n], dec[n], rd[n]))
		}
		// multi-valued headers: replay uses the additive setter
		add := callsMatching(c.lookup, false, nameHasSuffix("fasthttp.ResponseHeader).Add"))
		r.check(len(add) >= 1, "replay:headers-additive", r.fpos(c.lookup), "headers are replayed with Add (multi-valued headers survive)", "headers are replayed with a replacing setter: multi-valued headers collapse")
	})

	r.rule("R12", "what the caller configured is kept: on the caller's configuration configDefault assigns a field only behind a test of that same field — a Lock supplied without a Storage stays the caller's Lock (it may be shared between instances, or fail on purpose) (E1)", func() {
		defaultsOnlyForUnsetRule(r, idemPkg, "idempotency", 5)
	})

	r.rule("R11", "the headers of the stored answer are the headers of the first answer: the handler hands the response-header binder the map it stores, not a pointer to it (a pointer makes the binder split header values at commas under EnableSplittingOnParsers) (E8, type-level)", func() {
		bindMapByValueRule(r, idemPkg, 1)
	})

	r.rule("R15", "what is filtered is what is stored: the map the handler fills behind the keep-set lookup (the filtered headers) is the one that reaches response.Headers — it is the Headers field itself or flows into the stored response; a filtered map that nothing reads (a `:=` inside the filter branch shadows the variable the response is built from) means every duplicate is answered with all headers of the first execution, its Set-Cookie included (E3: the filtered value reaches the record)", func() {
		c := get()
		n := 0
		for _, in := range instrsWhere(c.h, func(in ssa.Instruction) bool { _, ok := in.(*ssa.MapUpdate); return ok }) {
			mu := in.(*ssa.MapUpdate)
			mt, ok := mu.Map.Type().Underlying().(*types.Map)
			if !ok {
				continue
			}
			if _, isSl := mt.Elem().Underlying().(*types.Slice); !isSl {
				continue
			}
			// behind a lookup in the keep set?
			behind := false
			for _, br := range branchesIn(c.h) {
				ex, ok := stripValue(br.Info.Root).(*ssa.Extract)
				if !ok || ex.Index != 1 {
					continue
				}
				if lk, ok := ex.Tuple.(*ssa.Lookup); ok && lk.CommaOk {
					if sl, ok := br.truthSlot(true); ok && (br.If.Block().Succs[sl] == mu.Block() || dom(br.If.Block().Succs[sl], mu.Block())) {
						behind = true
					}
				}
			}
			if !behind {
				continue
			}
			n++
			// the filled map is the Headers field, or reaches a store into it / the response literal
			reaches := false
			if ld, ok := stripValue(mu.Map).(*ssa.UnOp); ok && ld.Op == token.MUL {
				if fa, ok := ld.X.(*ssa.FieldAddr); ok {
					if fv := fieldOfValue(fa); fv != nil && fv.Name() == "Headers" {
						reaches = true
					}
				}
			}
			if !reaches {
				seen := map[ssa.Value]bool{}
				var walk func(v ssa.Value)
				walk = func(v ssa.Value) {
					if seen[v] || v.Referrers() == nil {
						return
					}
					seen[v] = true
					for _, u := range *v.Referrers() {
						switch x := u.(type) {
						case *ssa.Store:
							if x.Val == v {
								if fa, ok := x.Addr.(*ssa.FieldAddr); ok {
									if fv := fieldOfValue(fa); fv != nil && fv.Name() == "Headers" {
										reaches = true
									}
								}
								if al, ok := x.Addr.(*ssa.Alloc); ok {
									// a local variable: follow its loads
									for _, lu := range *al.Referrers() {
										if ld, ok := lu.(*ssa.UnOp); ok && ld.Op == token.MUL {
											walk(ld)
										}
									}
								}
							}
						case *ssa.Phi:
							walk(x)
						case *ssa.MakeInterface:
							walk(x)
						case *ssa.Return:
							// filled in a helper and handed back: followed at the helper's calls
							for _, cs := range staticCallersOf(x.Parent()) {
								walk(cs)
							}
						}
					}
				}
				walk(mu.Map)
			}
			r.check(reaches, fmt.Sprintf("handler:filtered-headers#%d:reach-the-record", n), r.pos(in), "the filtered map is what response.Headers holds",
				"the map filled with the kept headers never reaches response.Headers (it is a new variable inside the filter branch): with KeepResponseHeaders configured every duplicate is answered with all headers of the first execution — the first caller's Set-Cookie and per-request headers are replayed")
		}
		r.atLeast("filtered-header writes behind the keep-set lookup", n, 1)
	})

	r.rule("R14", "`safe` is RFC 9110's list: the default Next skips the middleware exactly for what fiber.IsMethodSafe calls safe (R7), and IsMethodSafe answers true only behind a comparison of the method with GET, HEAD, OPTIONS or TRACE — all four and nothing else (table agreement with RFC 9110 §9.2.1; with TRACE missing a TRACE request carrying the key is answered with the stored POST response, or occupies the key so that the POST never runs)", func() {
		f := r.Fn("", "IsMethodSafe")
		r.need(len(f.Params) == 1, "IsMethodSafe(m string)")
		m := ssa.Value(f.Params[0])
		got := map[string]bool{}
		cut := map[edge]bool{}
		var preds []ssa.Value
		neq := false
		for _, b := range f.Blocks {
			for _, in := range b.Instrs {
				bo, ok := in.(*ssa.BinOp)
				if !ok || (bo.Op != token.EQL && bo.Op != token.NEQ) {
					continue
				}
				var k *ssa.Const
				if bo.X == m {
					k = asConst(bo.Y)
				} else if bo.Y == m {
					k = asConst(bo.X)
				}
				if k == nil {
					continue
				}
				str, ok := constString(k)
				if !ok {
					continue
				}
				if bo.Op == token.NEQ {
					neq = true
				}
				got[str] = true
				preds = append(preds, bo)
			}
		}
		for _, br := range branchesInOne(f) {
			if br.Info.Root == m || br.Info.Other == m {
				if sl, ok := br.slotFor(token.EQL); ok {
					cut[edge{br.If.Block(), sl}] = true
				}
			}
		}
		want := []string{"GET", "HEAD", "OPTIONS", "TRACE"}
		var missing, extra []string
		for _, w := range want {
			if !got[w] {
				missing = append(missing, w)
			}
		}
		for _, g := range sortedKeys(got) {
			isWanted := false
			for _, w := range want {
				if w == g {
					isWanted = true
				}
			}
			if !isWanted {
				extra = append(extra, g)
			}
		}
		onlyBehind := len(preds) > 0 && trueOnlyBehind(f, cut, func(v ssa.Value) bool {
			for _, p := range preds {
				if v == p {
					return true
				}
			}
			return false
		})
		r.check(len(missing) == 0 && len(extra) == 0 && !neq && onlyBehind, "IsMethodSafe:the-four-safe-methods", r.fpos(f), "true only behind m == GET / HEAD / OPTIONS / TRACE",
			fmt.Sprintf("IsMethodSafe does not compare the method with exactly RFC 9110's safe methods (missing %v, extra %v, negated comparison %v, true only behind a comparison %v): a safe method that is not recognised is no longer skipped by the idempotency middleware's default Next — a TRACE carrying the key of a POST gets the POST's stored answer, or takes the key first so that the POST handler never runs", missing, extra, neq, onlyBehind))
	})

	r.rule("R13", "every line of a repeated header is recorded: the stored headers are taken with Bind().RespHeader into a map of value lists, and everything the binders put into such a map is appended to what the key already holds (data[k] = append(data[k], v)) — an assignment of a fresh one-element list keeps only the last of two Set-Cookie lines, the replay then carries fewer header lines than the first answer (E3 accumulate, over the binder package)", func() {
		n := 0
		r.P.AllFuncs("binder", func(f *ssa.Function) {
			if strings.Contains(f.String(), "parseToMap") {
				return // writes the caller's destination map, not the collected data
			}
			for _, in := range instrsWhereOne(f, func(in ssa.Instruction) bool { _, ok := in.(*ssa.MapUpdate); return ok }) {
				mu := in.(*ssa.MapUpdate)
				mt, ok := mu.Map.Type().Underlying().(*types.Map)
				if !ok {
					continue
				}
				if _, isSlice := mt.Elem().Underlying().(*types.Slice); !isSlice {
					continue
				}
				n++
				okApp := false
				if c, ok := stripValue(mu.Value).(*ssa.Call); ok {
					if bi, ok := c.Call.Value.(*ssa.Builtin); ok && bi.Name() == "append" {
						if lk, ok := stripValue(c.Call.Args[0]).(*ssa.Lookup); ok && lk.X == mu.Map && sameExpr(lk.Index, mu.Key) {
							okApp = true
						}
					}
				}
				r.check(okApp, short(f.String())+":collected-values:appended", r.pos(in), "the value list of the key is extended",
					"a binder assigns a fresh value list under a key instead of extending the one it holds: of a header name that occurs twice (two Set-Cookie, two Link) only the last line survives — the idempotency middleware records its answer through Bind().RespHeader, the replay has fewer header lines than the execution returned")
			}
		})
		r.atLeast("writes into collected-value maps", n, 4)
	})

	r.rule("R10", "the list of headers to keep is matched in one spelling: the names put into the keep set and the names looked up in it go through a case fold of the same kind (lower case on both sides, or the canonical MIME form on both sides) — with DisableHeaderNormalizing a response header is spelled as the handler wrote it (E5, writer and reader agree)", func() {
		f := r.Fn(idemPkg, "New")
		class := func(key ssa.Value) string {
			cls := "as written"
			dependsOn(key, func(v ssa.Value) bool {
				c, ok := v.(*ssa.Call)
				if !ok {
					return false
				}
				switch nm := calleeName(&c.Call); {
				case nm == "strings.ToLower", nm == "bytes.ToLower", strings.HasPrefix(nm, "github.com/gofiber/utils/v2.ToLower"):
					cls = "lower case"
					return true
				case nm == "strings.ToUpper", strings.HasPrefix(nm, "github.com/gofiber/utils/v2.ToUpper"):
					cls = "upper case"
					return true
				case nm == "net/http.CanonicalHeaderKey", nm == "net/textproto.CanonicalMIMEHeaderKey":
					cls = "canonical MIME form"
					return true
				}
				return false
			})
			return cls
		}
		isSet := func(t types.Type) bool {
			m, ok := t.Underlying().(*types.Map)
			if !ok {
				return false
			}
			st, ok := m.Elem().Underlying().(*types.Struct)
			return ok && st.NumFields() == 0
		}
		writes, reads, direct := map[string]string{}, map[string]string{}, map[string]string{}
		// New, its closures, and the helpers they call (the filter loop may live in a function of its own)
		scope := append([]*ssa.Function{f}, anonFuncsDeep(f)...)
		seenFn := map[*ssa.Function]bool{}
		for _, g := range scope {
			seenFn[g] = true
		}
		for _, g := range append([]*ssa.Function{}, scope...) {
			for _, hlp := range helpersOf(g) {
				if !seenFn[hlp] {
					seenFn[hlp] = true
					scope = append(scope, hlp)
				}
			}
		}
		for _, g := range scope {
			for _, b := range g.Blocks {
				for _, in := range b.Instrs {
					switch x := in.(type) {
					case *ssa.MapUpdate:
						if isSet(x.Map.Type()) {
							writes[class(x.Key)] = r.pos(in)
						}
					case *ssa.Lookup:
						if isSet(x.X.Type()) {
							reads[class(x.Index)] = r.pos(in)
						} else if mt, ok := x.X.Type().Underlying().(*types.Map); ok && mt.Elem().String() == "[]string" &&
							dependsOn(x.Index, func(v ssa.Value) bool { return loadOfField(v, "idempotency.Config.KeepResponseHeaders") }) != nil {
							// the other way round: the response's header map asked with a configured name
							direct[class(x.Index)] = r.pos(in)
						}
					}
				}
			}
		}
		if len(direct) > 0 {
			for _, cls := range sortedKeys(direct) {
				r.check(cls == "canonical MIME form", "New:kept-name-asked-of-the-response:"+cls, direct[cls], "the response's headers are asked with the canonical form of the configured name",
					"the response's header map (keyed by fasthttp's canonical spelling) is asked with a configured name "+cls+": `KeepResponseHeaders: {\"X-Request-ID\"}` never finds `X-Request-Id`, the header is not stored and every replay lacks it")
			}
			return
		}
		r.need(len(writes) > 0 && len(reads) > 0, "New fills a set of header names and looks names up in it")
		ok := len(writes) == 1 && len(reads) == 1
		var w, rd string
		for k := range writes {
			w = k
		}
		for k := range reads {
			rd = k
		}
		ok = ok && w == rd && w != "as written"
		r.check(ok, "New:keep-set:one-spelling", r.fpos(f), "names are inserted and looked up in "+w,
			fmt.Sprintf("the names of the headers to keep are stored in %s (%s) but looked up in %s (%s): with DisableHeaderNormalizing a header the handler wrote as `x-trace-id` is not found, it is dropped from the stored answer and every replay lacks it", w, writes[w], rd, reads[rd]))
	})

	r.rule("R9", "a stored answer that cannot be read is a failed lookup, not a miss: in the lookup closure the error edge of Storage.Get and of the decoder leads to a non-nil error only (a miss would run the handler again and overwrite the stored answer) (E1, error discipline)", func() {
		c := get()
		lk := c.lookup
		n := 0
		for _, cs := range callsIn(lk, false) {
			if !(strings.HasSuffix(cs.Name, "v3.Storage).Get") || strings.HasSuffix(cs.Name, ").UnmarshalMsg")) || cs.Value() == nil {
				continue
			}
			var ev ssa.Value
			if tup, ok := cs.Value().Type().(*types.Tuple); ok {
				for _, ref := range *cs.Value().Referrers() {
					if ex, ok := ref.(*ssa.Extract); ok && ex.Index == tup.Len()-1 {
						ev = ex
					}
				}
			}
			if ev == nil {
				r.bad(fmt.Sprintf("lookup:%s:error-is-an-error", short(cs.Name)), r.pos(cs.Instr), "the error of "+short(cs.Name)+" is not looked at")
				continue
			}
			n++
			swallowed := ""
			for _, br := range ifsOnValue(lk, ev) {
				sl, ok := br.nilSlot(false)
				if !ok {
					continue
				}
				isNilRet := func(in ssa.Instruction) bool {
					ret, ok := in.(*ssa.Return)
					return ok && ret.Parent() == lk && len(ret.Results) > 0 && constIsNil(asConst(stripValue(ret.Results[len(ret.Results)-1])))
				}
				if path, hit := reachEdge(edge{br.If.Block(), sl}, isNilRet, nil, nil); hit != nil {
					swallowed = pathString(r.P, path)
				}
			}
			r.check(swallowed == "", fmt.Sprintf("lookup:%s:error-is-an-error", short(cs.Name)), r.pos(cs.Instr), "from the error edge only returns with a non-nil error are reachable",
				"after "+short(cs.Name)+" failed the lookup can answer `not found` without an error: a key that is present but unreadable is treated as never seen, the handler runs again within the key's lifetime and duplicates get different answers: "+swallowed)
		}
		r.atLeast("fallible steps of the lookup", n, 2)
	})

	r.rule("R5", "MemoryLock discipline (E2)", func() {
		for _, fn := range []string{"(*MemoryLock).Lock", "(*MemoryLock).Unlock"} {
			f := r.Fn(idemPkg, fn)
			ls := locksets(f, lockState{}, nil)
			n := 0
			// the function and the unexported helpers it calls (a critical section moved into a method of its own is
			// analysed with its own lock operations; what the caller holds at the call counts as well)
			type scope struct {
				g          *ssa.Function
				ls         *lockResult
				callerHeld bool
			}
			scopes := []scope{{f, ls, false}}
			for _, g := range helpersOf(f) {
				held := true
				sites := 0
				for _, c := range callsIn(f, false) {
					if c.Fn == f && c.Common.StaticCallee() == g {
						sites++
						if !ls.Before[c.Instr].holds("param:l.mu") {
							held = false
						}
					}
				}
				scopes = append(scopes, scope{g, locksets(g, lockState{}, nil), held && sites > 0})
			}
			for _, sc := range scopes {
				ls := sc.ls
				for _, b := range sc.g.Blocks {
					for _, in := range b.Instrs {
						touch := false
						switch x := in.(type) {
						case *ssa.Lookup:
							touch = loadOfField(x.X, "idempotency.MemoryLock.keys")
						case *ssa.MapUpdate:
							touch = loadOfField(x.Map, "idempotency.MemoryLock.keys")
						case *ssa.Call:
							if calleeName(&x.Call) == "builtin:delete" {
								touch = loadOfField(x.Call.Args[0], "idempotency.MemoryLock.keys")
							}
						}
						if touch {
							n++
							r.check(sc.callerHeld || ls.Before[in].holds("param:l.mu"), fmt.Sprintf("%s:keys-access#%d", fn, n), r.pos(in), "l.mu held", "the key map is accessed without l.mu")
						}
						// blocking on a key mutex under l.mu
						if ci, ok := in.(ssa.CallInstruction); ok {
							if op, ok := classifyLockCall(ci.Common()); ok && op.Acquire && op.ID != "param:l.mu" {
								r.check(!ls.Before[in].holds("param:l.mu"), fn+":key-mutex-not-under-map-mutex", r.pos(in), "the per-key mutex is acquired after l.mu was dropped", "the per-key mutex is acquired while l.mu is held: one busy key blocks every other key")
							}
						}
						// counter writes under l.mu
						if st, ok := in.(*ssa.Store); ok {
							if fa, ok := st.Addr.(*ssa.FieldAddr); ok {
								if fv := fieldVar(fa.X.Type(), fa.Field); fv != nil && fv.Name() == "locked" {
									r.check(sc.callerHeld || ls.Before[in].holds("param:l.mu"), fmt.Sprintf("%s:count-write@%s", fn, tokenOf(st)), r.pos(in), "waiter count changed under l.mu", "the waiter count is changed without l.mu")
								}
							}
						}
					}
				}
			}
			r.atLeast(fn+" key map accesses", n, 1)
			held := false
			for _, in := range instrsWhere(f, isReturn) {
				if ls.Before[in].holds("param:l.mu") {
					held = true
				}
			}
			r.check(!held, fn+":locks-paired", r.fpos(f), "l.mu is released on every exit (the per-key mutex is handed to the caller by design)", "a return is reachable with l.mu held")
		}
		// delete only at count <= 0
		u := r.Fn(idemPkg, "(*MemoryLock).Unlock")
		dels := callsMatching(u, false, nameIs("builtin:delete"))
		r.need(len(dels) == 1, "Unlock deletes the entry once")
		cut := map[edge]bool{}
		for _, br := range branchesIn(u) {
			if loadOfField(br.Info.Root, "idempotency.countedLock.locked") {
				if n, ok := constInt(br.Info.Const); ok && n == 0 {
					switch br.Info.Op {
					case token.LEQ, token.EQL, token.LSS:
						cut[edge{br.If.Block(), br.slotWhenRel(true)}] = true
					case token.GTR, token.NEQ, token.GEQ:
						cut[edge{br.If.Block(), br.slotWhenRel(false)}] = true
					}
				} else if ok && n == 1 {
					// the same boundary written against 1: `< 1` is `<= 0`, `>= 1` is `> 0`
					switch br.Info.Op {
					case token.LSS:
						cut[edge{br.If.Block(), br.slotWhenRel(true)}] = true
					case token.GEQ:
						cut[edge{br.If.Block(), br.slotWhenRel(false)}] = true
					}
				}
			}
		}
		_, hit := reach(entryOf(u), func(in ssa.Instruction) bool { return in == dels[0].Instr }, cut, nil)
		r.check(len(cut) > 0 && hit == nil, "Unlock:delete-only-when-unused", r.pos(dels[0].Instr), "the entry is deleted only when no holder or waiter is left", "the entry can be deleted while another request still waits on it: the waiter and a newcomer then hold different mutexes for one key (handler runs twice)")
		// Lock counts the waiter before dropping l.mu
		l := r.Fn(idemPkg, "(*MemoryLock).Lock")
		var incr ssa.Instruction
		for _, fr := range fieldRefs(l) {
			if fr.Write && fr.Name == "idempotency.countedLock.locked" {
				incr = fr.Instr
			}
		}
		okInc := false
		if incr != nil {
			_, hit := reach(entryOf(l), func(in ssa.Instruction) bool {
				ci, ok := in.(ssa.CallInstruction)
				if !ok {
					return false
				}
				op, ok := classifyLockCall(ci.Common())
				return ok && !op.Acquire && op.ID == "param:l.mu"
			}, nil, func(in ssa.Instruction) bool { return in == incr })
			okInc = hit == nil
		}
		r.check(okInc, "Lock:count-before-release", r.fpos(l), "the waiter is counted before l.mu is released", "l.mu is released before the waiter is counted: a concurrent Unlock can delete the entry the waiter is about to block on")
	})

	r.rule("R6", "bypasses touch neither storage nor lock (E1)", func() {
		c := get()
		isGuarded := func(in ssa.Instruction) bool {
			if ci, ok := in.(ssa.CallInstruction); ok {
				n := calleeName(ci.Common())
				return strings.HasSuffix(n, "v3.Storage).Get") || strings.HasSuffix(n, "v3.Storage).Set") || strings.HasSuffix(n, "idempotency.Locker).Lock") ||
					n == "var:maybeWriteCachedResponse" || n == c.lookup.String()
			}
			return false
		}
		var starts []point
		for _, cs := range callsMatching(c.h, false, nameIs("field:idempotency.Config.Next")) {
			for _, br := range ifsOnValue(c.h, cs.Value()) {
				if s, ok := br.truthSlot(true); ok {
					starts = append(starts, pointOfEdge(edge{br.If.Block(), s}))
				}
			}
		}
		for _, br := range branchesIn(c.h) {
			if s, ok := constString(br.Info.Const); ok && s == "" {
				if root, _ := producerCall(derefCell(c.h, br.Info.Root)); root != nil && strings.HasSuffix(calleeName(&root.Call), "utils/v2.CopyString") {
					if sl, ok := br.slotFor(token.EQL); ok {
						starts = append(starts, pointOfEdge(edge{br.If.Block(), sl}))
					}
				}
			}
		}
		r.atLeast("bypass edges", len(starts), 2)
		ok := true
		for _, st := range starts {
			if _, hit := reach(st, isGuarded, nil, nil); hit != nil {
				ok = false
			}
			if _, hit := reach(st, isReturn, nil, func(in ssa.Instruction) bool { return isCallTo(in, isNextName) }); hit != nil {
				ok = false
			}
		}
		r.check(ok, "bypass:straight-to-Next", r.fpos(c.h), "Next(c)==true and the empty key go straight to c.Next() with no storage or lock call", "a bypassed request touches the storage/lock or does not reach the handler")
	})

	r.rule("R7", "the default skip predicate bypasses safe methods only (E1): ConfigDefault.Next answers true only behind fiber.IsMethodSafe", func() {
		ini := r.P.Func(idemPkg, "init")
		r.need(ini != nil, "package initialiser")
		var next *ssa.Function
		var visit func(f *ssa.Function)
		visit = func(f *ssa.Function) {
			for _, fr := range fieldRefsOne(f) {
				if fr.Write && fr.Name == "idempotency.Config.Next" {
					switch v := fr.Val.(type) {
					case *ssa.Function:
						next = v
					case *ssa.MakeClosure:
						next, _ = v.Fn.(*ssa.Function)
					}
				}
			}
		}
		visit(ini)
		for _, a := range anonFuncsDeep(ini) {
			visit(a)
		}
		r.need(next != nil, "ConfigDefault.Next is a function literal")
		cut := map[edge]bool{}
		var preds []ssa.Value
		for _, c := range callsMatching(next, false, nameIs(fiberMod+".IsMethodSafe")) {
			preds = append(preds, c.Value())
			for _, br := range ifsOnValue(next, c.Value()) {
				if sl, ok := br.truthSlot(true); ok {
					cut[edge{br.If.Block(), sl}] = true
				}
			}
		}
		ok := len(preds) > 0 && trueOnlyBehind(next, cut, func(v ssa.Value) bool {
			for _, p := range preds {
				if v == p {
					return true
				}
			}
			return false
		})
		r.check(ok, "ConfigDefault.Next:safe-methods-only", r.fpos(next), "the default Next answers true only when fiber.IsMethodSafe(method) is true",
			"the default skip predicate can bypass the middleware for a method that is not safe (e.g. PUT or DELETE, which are idempotent by definition but not safe): duplicates of such requests all run the handler")
	})

	r.rule("R8", "function-valued Config fields the middleware calls are never nil (E1): set by configDefault on every path, also when no config is passed", func() {
		configFuncFieldsRule(r, idemPkg, "idempotency")
	})
}

func tokenOf(st *ssa.Store) string {
	if bo, ok := st.Val.(*ssa.BinOp); ok {
		return bo.Op.String()
	}
	return "="
}

// derefCell: if v is a load of a local cell in f, return the single value stored into it.
func derefCell(f *ssa.Function, v ssa.Value) ssa.Value {
	u, ok := v.(*ssa.UnOp)
	if !ok || u.Op != token.MUL {
		return v
	}
	al, ok := u.X.(*ssa.Alloc)
	if !ok {
		return v
	}
	var val ssa.Value
	n := 0
	for _, ref := range *al.Referrers() {
		if st, ok := ref.(*ssa.Store); ok && st.Addr == al {
			val = st.Val
			n++
		}
	}
	if n == 1 {
		return val
	}
	return v
}
