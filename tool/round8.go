package main

import (
	"fmt"
	"go/token"
	"go/types"
	"sort"
	"strings"

	"golang.org/x/tools/go/ssa"
)

var _ = fmt.Sprintf
var _ = sort.Strings
var _ = types.Typ
var _ = token.ADD

// derivesFromFieldSlice: v is the value of field `name` (a slice), or a re-slice of it, possibly through phis.
func derivesFromFieldSlice(v ssa.Value, name string) bool {
	return dependsOn(v, func(x ssa.Value) bool {
		if fa, ok := x.(*ssa.FieldAddr); ok {
			if fv := fieldOfValue(fa); fv != nil && fv.Name() == name {
				return true
			}
		}
		return false
	}) != nil
}

// sharedSliceIsAppendOnlyRule: slices copied out of field `owner.name` share its backing array; the field may be
// replaced by a longer slice (append) but no element that is already handed out may be overwritten or moved:
// no store through an index of the field's value, no copy() into it, no slices.Insert/Delete/Reverse/Sort on it.
func sharedSliceIsAppendOnlyRule(r *Run, pkg, name, what, consequence string) {
	reads, appends := 0, 0
	type site struct {
		pos, how string
	}
	var bad []site
	r.P.AllFuncs(pkg, func(f *ssa.Function) {
		for _, b := range f.Blocks {
			for _, in := range b.Instrs {
				switch x := in.(type) {
				case *ssa.FieldAddr:
					if fv := fieldOfValue(x); fv != nil && fv.Name() == name {
						reads++
					}
				case *ssa.Store:
					if ia, ok := x.Addr.(*ssa.IndexAddr); ok && sliceOfField(ia.X, name) {
						bad = append(bad, site{r.pos(in), "an element is assigned"})
					}
				case *ssa.Call:
					cn := calleeName(&x.Call)
					if bi, ok := x.Call.Value.(*ssa.Builtin); ok {
						switch bi.Name() {
						case "copy":
							if sliceOfField(x.Call.Args[0], name) {
								bad = append(bad, site{r.pos(in), "copy() writes into it"})
							}
						case "append":
							if sliceOfField(x.Call.Args[0], name) {
								appends++
							}
						case "clear":
							if sliceOfField(x.Call.Args[0], name) {
								bad = append(bad, site{r.pos(in), "clear() wipes it"})
							}
						}
						continue
					}
					if strings.HasPrefix(cn, "slices.") || strings.HasPrefix(cn, "sort.") {
						fn := cn[strings.Index(cn, ".")+1:]
						if i := strings.IndexByte(fn, '['); i >= 0 {
							fn = fn[:i]
						}
						switch fn {
						case "Insert", "Delete", "DeleteFunc", "Reverse", "Sort", "SortFunc", "SortStableFunc", "Replace", "Compact", "CompactFunc", "Slice", "SliceStable", "Strings":
							if len(x.Call.Args) > 0 && sliceOfField(x.Call.Args[0], name) {
								bad = append(bad, site{r.pos(in), cn + " rearranges it in place"})
							}
						}
					}
				}
			}
		}
	})
	r.count("reads of "+name, reads)
	r.atLeast("appends to "+what, appends, 1)
	if len(bad) == 0 {
		r.ok(name+":append-only", "", fmt.Sprintf("%s is only ever extended by append (%d appends, %d field accesses); no element is assigned, copied over or rearranged", what, appends, reads))
		return
	}
	for i, s := range bad {
		r.bad(fmt.Sprintf("%s:append-only#%d", name, i+1), s.pos, what+" is changed in place ("+s.how+"): "+consequence)
	}
}

// sliceOfField: v is a load of field `name`, or a (re)slice of such a load, through phis.
func sliceOfField(v ssa.Value, name string) bool {
	seen := map[ssa.Value]bool{}
	var walk func(v ssa.Value) bool
	walk = func(v ssa.Value) bool {
		v = stripValue(v)
		if seen[v] {
			return false
		}
		seen[v] = true
		switch x := v.(type) {
		case *ssa.UnOp:
			if x.Op == token.MUL {
				if fa, ok := x.X.(*ssa.FieldAddr); ok {
					if fv := fieldOfValue(fa); fv != nil && fv.Name() == name {
						return true
					}
				}
			}
		case *ssa.Slice:
			return walk(x.X)
		case *ssa.Phi:
			for _, e := range x.Edges {
				if walk(e) {
					return true
				}
			}
		case *ssa.Call:
			if bi, ok := x.Call.Value.(*ssa.Builtin); ok && bi.Name() == "append" {
				return walk(x.Call.Args[0])
			}
		}
		return false
	}
	return walk(v)
}

// positionInSuffixIsRebasedRule (relative/absolute confusion): the result of a search in s[low:] counts from low.
// Wherever such a result — alone or merged with other positions by a phi, shifted by constants — is used as an index
// or slice bound of s itself, `low` must have been added back.  A loop `for i != -1 { …; i = Index(s[end:], x) }` that
// forgets it walks backwards and need not terminate.
func positionInSuffixIsRebasedRule(r *Run, pkgs ...string) {
	nSearch, nUses := 0, 0
	type finding struct{ pos, fn, detail string }
	var bad []finding
	for _, pk := range pkgs {
		r.P.AllFuncs(pk, func(f *ssa.Function) {
			for _, b := range f.Blocks {
				for _, in := range b.Instrs {
					c, ok := in.(*ssa.Call)
					if !ok || len(c.Call.Args) < 2 {
						continue
					}
					cn := calleeName(&c.Call)
					if !(strings.HasPrefix(cn, "strings.Index") || strings.HasPrefix(cn, "bytes.Index") || strings.HasPrefix(cn, "strings.LastIndex") || strings.HasPrefix(cn, "bytes.LastIndex")) {
						continue
					}
					sl, ok := stripValue(c.Call.Args[0]).(*ssa.Slice)
					if !ok || sl.Low == nil || isConstInt(sl.Low, 0) {
						continue
					}
					nSearch++
					base, low := sl.X, sl.Low
					// taint: values that still count from low
					taint := map[ssa.Value]bool{c: true}
					work := []ssa.Value{c}
					for len(work) > 0 {
						v := work[len(work)-1]
						work = work[:len(work)-1]
						refs := v.Referrers()
						if refs == nil {
							continue
						}
						for _, u := range *refs {
							switch x := u.(type) {
							case *ssa.Phi:
								if !taint[x] {
									taint[x] = true
									work = append(work, x)
								}
							case *ssa.Convert:
								if !taint[x] {
									taint[x] = true
									work = append(work, x)
								}
							case *ssa.BinOp:
								if x.Op != token.ADD && x.Op != token.SUB {
									continue
								}
								other := x.Y
								if x.Y == v {
									other = x.X
								}
								if x.Op == token.ADD && (sameExpr(other, low) || dependsOn(other, func(y ssa.Value) bool { return y == low }) != nil || dependsOn(low, func(y ssa.Value) bool { return y == stripValue(other) }) != nil) {
									continue // rebased
								}
								if _, isConst := other.(*ssa.Const); !isConst {
									// added to something else that is not the offset: cannot tell, treat len(needle)-like terms as shifts
									if !isLenLike(other) {
										continue
									}
								}
								if !taint[x] {
									taint[x] = true
									work = append(work, x)
								}
							}
						}
					}
					// uses of tainted values as positions in base
					for tv := range taint {
						refs := tv.Referrers()
						if refs == nil {
							continue
						}
						for _, u := range *refs {
							var on ssa.Value
							switch x := u.(type) {
							case *ssa.Lookup:
								if x.Index == tv {
									on = x.X
								}
							case *ssa.Index:
								if x.Index == tv {
									on = x.X
								}
							case *ssa.IndexAddr:
								if x.Index == tv {
									on = x.X
								}
							case *ssa.Slice:
								if x.Low == tv || x.High == tv {
									on = x.X
								}
							}
							if on == nil {
								continue
							}
							nUses++
							if sameExpr(on, base) {
								bad = append(bad, finding{r.pos(u), short(f.String()), fmt.Sprintf("the position found by %s in a tail of the text (searched from an offset, %s) is used as a position in the whole text without the offset being added back", cn, r.pos(c))})
							}
						}
					}
				}
			}
		})
	}
	r.count("searches in a tail", nSearch)
	r.atLeast("searches in a tail of a text (s[low:])", nSearch, 1)
	if len(bad) == 0 {
		r.ok("positions-found-in-a-tail:rebased", "", fmt.Sprintf("%d searches in s[low:]; none of their results (nor a phi or constant shift of one) indexes or cuts s itself without low added back (%d uses as positions looked at)", nSearch, nUses))
		return
	}
	sort.Slice(bad, func(i, j int) bool { return bad[i].pos < bad[j].pos })
	seen := map[string]bool{}
	for _, b := range bad {
		k := b.fn + "@" + b.detail
		if seen[k] {
			continue
		}
		seen[k] = true
		r.bad(b.fn+":position-in-tail-rebased", b.pos, b.detail+": the scan can step backwards — a loop over the occurrences (`Xno-cache,Xno-cache`) never ends, or a byte of the wrong place is judged")
	}
}

// isLenLike: len(x) or a constant.
func isLenLike(v ssa.Value) bool {
	v = stripValue(v)
	if _, ok := v.(*ssa.Const); ok {
		return true
	}
	if c, ok := v.(*ssa.Call); ok {
		if bi, ok := c.Call.Value.(*ssa.Builtin); ok && bi.Name() == "len" {
			return true
		}
	}
	return false
}

// viewDelegatesByNameRule (sibling agreement): c.Req() and c.Res() are views on the context; each method of the view
// answers by calling the context method of the same name with its own arguments in order.  Exceptions are listed.
func viewDelegatesByNameRule(r *Run, recv string, names []string, why string) {
	except := map[string]string{"(*DefaultRes).Get": "GetRespHeader"} // Res().Get reads the response header by design
	n := 0
	for _, name := range names {
		full := "(*" + recv + ")." + name
		f := r.FnOpt("", full)
		if f == nil {
			r.bad(full+":delegates-to-the-same-name", "", "the view has no method "+name+" any more: the rule's table is out of date")
			continue
		}
		want := name
		if e, ok := except[full]; ok {
			want = e
		}
		var calls []callSite
		for _, c := range callsIn(f, false) {
			if _, isBuiltin := c.Common.Value.(*ssa.Builtin); isBuiltin && !c.Common.IsInvoke() {
				continue
			}
			calls = append(calls, c)
		}
		if len(calls) != 1 {
			r.bad(full+":delegates-to-the-same-name", r.fpos(f), fmt.Sprintf("the view method is not a single delegation any more (%d calls): not the shape the rule reads", len(calls)))
			continue
		}
		c := calls[0]
		cn := c.Name
		if i := strings.LastIndex(cn, "."); i >= 0 {
			cn = cn[i+1:]
		}
		// arguments: the view's own parameters, in order
		args := c.Common.Args
		if !c.Common.IsInvoke() && len(args) > 0 {
			args = args[1:] // receiver
		}
		argsOK := len(args) == len(f.Params)-1
		if argsOK {
			for i, a := range args {
				if stripValue(a) != ssa.Value(f.Params[i+1]) {
					argsOK = false
				}
			}
		}
		n++
		r.check(cn == want && argsOK, full+":delegates-to-the-same-name", r.pos(c.Instr), "answers with the context's "+want+" on its own arguments",
			fmt.Sprintf("%s answers with the context's %s (arguments in order: %v) instead of %s: %s", full, cn, argsOK, want, why))
	}
	r.atLeast("view methods checked", n, len(names))
}

// allSourcesAre: every phi-free source of v (through phis and conversions) satisfies pred.
func allSourcesAre(v ssa.Value, pred func(ssa.Value) bool) bool {
	seen := map[ssa.Value]bool{}
	var rec func(v ssa.Value) bool
	rec = func(v ssa.Value) bool {
		v = stripValue(v)
		if seen[v] {
			return true
		}
		seen[v] = true
		if ph, ok := v.(*ssa.Phi); ok {
			for _, e := range ph.Edges {
				if !rec(e) {
					return false
				}
			}
			return len(ph.Edges) > 0
		}
		return pred(v)
	}
	return rec(v)
}

// staticCalleeOf resolves the callee of a call site to a module function when it is static (function, method,
// closure literal or closure variable).
func staticCalleeOf(cc *ssa.CallCommon) *ssa.Function {
	if g := cc.StaticCallee(); g != nil {
		return g
	}
	if mc, ok := cc.Value.(*ssa.MakeClosure); ok {
		if g, ok := mc.Fn.(*ssa.Function); ok {
			return g
		}
	}
	return closureVarCallee(cc)
}

// reachesCall: BFS over static callees and function literals from the roots; returns the chain to the first function
// whose name satisfies target (nil when none).  Only functions with bodies (module or not) are followed, depth-bounded.
func reachesCall(roots []*ssa.Function, target func(string) bool, follow func(*ssa.Function) bool) []string {
	type node struct {
		f    *ssa.Function
		path []string
	}
	seen := map[*ssa.Function]bool{}
	var q []node
	for _, f := range roots {
		q = append(q, node{f, []string{short(f.String())}})
		seen[f] = true
	}
	for len(q) > 0 {
		n := q[0]
		q = q[1:]
		var next []*ssa.Function
		withoutHelpers(func() {
			for _, c := range callsIn(n.f, false) {
				if target(c.Name) {
					next = nil
					q = nil
					n.path = append(n.path, c.Name)
					seen = nil
					return
				}
				if g := staticCalleeOf(c.Common); g != nil {
					next = append(next, g)
				}
			}
		})
		if seen == nil {
			return n.path
		}
		next = append(next, n.f.AnonFuncs...)
		for _, g := range next {
			if seen[g] || len(g.Blocks) == 0 || (follow != nil && !follow(g)) || len(n.path) > 8 {
				continue
			}
			seen[g] = true
			q = append(q, node{g, append(append([]string{}, n.path...), short(g.String()))})
		}
	}
	return nil
}

// derivesFromFreeVarSlice: the slice value v is (a re-slice of, an append onto, a phi of) memory that a free variable of
// its function refers to — i.e. memory created once, outside the closure, and shared by every run of the closure.
// Cells (locals captured by an inner closure) are followed through their stores.
func sharedBackingOf(v ssa.Value, depth int) ssa.Value {
	seen := map[ssa.Value]bool{}
	var walk func(v ssa.Value, d int) ssa.Value
	walk = func(v ssa.Value, d int) ssa.Value {
		v = stripValue(v)
		if v == nil || seen[v] || d > 6 {
			return nil
		}
		seen[v] = true
		switch x := v.(type) {
		case *ssa.Slice:
			return walk(x.X, d)
		case *ssa.Phi:
			for _, e := range x.Edges {
				if s := walk(e, d); s != nil {
					return s
				}
			}
		case *ssa.Call:
			if bi, ok := x.Call.Value.(*ssa.Builtin); ok && bi.Name() == "append" {
				return walk(x.Call.Args[0], d)
			}
		case *ssa.UnOp:
			if x.Op != token.MUL {
				return nil
			}
			switch a := x.X.(type) {
			case *ssa.FreeVar:
				// a captured variable: of the enclosing closure (a per-run local — follow its stores there) or of the constructor
				b := bindingOf(a)
				if al, ok := b.(*ssa.Alloc); ok {
					if al.Parent() != nil && al.Parent().Parent() == nil {
						// cell of the outermost function (the constructor): created once
						if _, isSlice := a.Type().(*types.Pointer).Elem().Underlying().(*types.Slice); isSlice {
							return a
						}
					}
					for _, st := range storesInto(al) {
						if s := walk(st.Val, d+1); s != nil {
							return s
						}
					}
					return nil
				}
				return nil
			case *ssa.Alloc:
				for _, st := range storesInto(a) {
					if s := walk(st.Val, d+1); s != nil {
						return s
					}
				}
			}
		case *ssa.FreeVar:
			// a slice captured by value
			b := bindingOf(x)
			if b != nil {
				if f := x.Parent(); f != nil && f.Parent() != nil && f.Parent().Parent() == nil {
					if _, isSlice := x.Type().Underlying().(*types.Slice); isSlice {
						return x
					}
				}
			}
		}
		return nil
	}
	return walk(v, depth)
}

// handlerScratchIsPerRequestRule: the handler closure a middleware constructor returns runs concurrently for many
// requests; memory the constructor created once (a captured slice) must not be written by a request without a lock:
// no append onto it (appends within capacity write the shared array), no element store.
func handlerScratchIsPerRequestRule(r *Run, pkg string, ctor string, consequence string) {
	f := r.Fn(pkg, ctor)
	var hs []*ssa.Function
	for _, a := range f.AnonFuncs {
		if isHandlerSig(a.Signature) {
			hs = append(hs, a)
		}
	}
	r.need(len(hs) >= 1, ctor+" builds a handler closure")
	nApp := 0
	for _, h := range hs {
		fs := append([]*ssa.Function{h}, anonFuncsDeep(h)...)
		for _, g := range fs {
			for _, b := range g.Blocks {
				for _, in := range b.Instrs {
					switch x := in.(type) {
					case *ssa.Call:
						if bi, ok := x.Call.Value.(*ssa.Builtin); ok && bi.Name() == "append" {
							nApp++
							if s := sharedBackingOf(x.Call.Args[0], 0); s != nil {
								r.bad(short(g.String())+":append:per-request-memory", r.pos(in), "a request appends onto a slice the constructor created once ("+s.Name()+"): every request that stays within its capacity writes the same array — "+consequence)
							}
						}
					case *ssa.Store:
						if ia, ok := x.Addr.(*ssa.IndexAddr); ok {
							if s := sharedBackingOf(ia.X, 0); s != nil {
								r.bad(short(g.String())+":element-store:per-request-memory", r.pos(in), "a request stores into an element of a slice the constructor created once ("+s.Name()+"): "+consequence)
							}
						}
					}
				}
			}
		}
	}
	r.count("appends in the handler", nApp)
	if nApp == 0 {
		r.ok(ctor+":handler:no-appends", r.fpos(f), "the handler appends to nothing")
		return
	}
	r.ok(ctor+":handler:scratch-is-per-request", r.fpos(f), fmt.Sprintf("%d appends in the handler and its closures, none onto memory captured from the constructor", nApp))
}

// valueIsParamNamed: v is the parameter `name` of its function, or a parameter of an unexported helper that every
// static caller hands such a parameter (two levels).
func valueIsParamNamed(v ssa.Value, name string) bool {
	var rec func(v ssa.Value, d int) bool
	rec = func(v ssa.Value, d int) bool {
		p, ok := stripValue(v).(*ssa.Parameter)
		if !ok {
			return false
		}
		if p.Name() == name {
			return true
		}
		g := p.Parent()
		if d >= 2 || g == nil || g.Object() == nil || g.Object().Exported() {
			return false
		}
		idx := -1
		for i, q := range g.Params {
			if q == p {
				idx = i
			}
		}
		calls := staticCallersOf(g)
		if idx < 0 || len(calls) == 0 {
			return false
		}
		for _, c := range calls {
			if idx >= len(c.Call.Args) || !rec(c.Call.Args[idx], d+1) {
				return false
			}
		}
		return true
	}
	return rec(v, 0)
}
