#!/bin/sh
# offline build of the checker from /verif/tool (x/tools v0.29.0 from the module cache)
set -e
HERE="$(cd "$(dirname "$0")" && pwd)"
export GOFLAGS=-mod=mod GOPROXY=off GOSUMDB=off GOTOOLCHAIN=local GOWORK=off
mkdir -p "$HERE/bin" "$HERE/evidence"
cd "$HERE/tool" && go build -o "$HERE/bin/fibercheck" .
echo "built $HERE/bin/fibercheck"
