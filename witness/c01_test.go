package witness

import (
	"strings"
	"testing"

	"github.com/gofiber/fiber/v3"
)

// F4 (C01): the 3-byte index hid a route whose 3-byte constant has an optional slash.
func TestF4_OptionalSlashBucket(t *testing.T) {
	app := fiber.New()
	app.Get("/a/:id?", func(c fiber.Ctx) error { return c.SendString("id=" + c.Params("id")) })
	if rc := do(app, "GET", "/a"); rc.Response.StatusCode() != 200 {
		t.Fatalf("GET /a on /a/:id? -> %d (route hidden by the prefix index)", rc.Response.StatusCode())
	}
	if rc := do(app, "GET", "/a/7"); string(rc.Response.Body()) != "id=7" {
		t.Fatalf("GET /a/7 -> %q", rc.Response.Body())
	}
}

// F5 (C01): after a path override the scan cursor pointed into the old bucket.
func TestF5_PathOverrideCursor(t *testing.T) {
	app := fiber.New()
	trace := ""
	app.Get("/new/a", func(c fiber.Ctx) error { trace += "A"; return c.Next() })
	app.Use(func(c fiber.Ctx) error {
		trace += "R"
		if c.Path() == "/old" {
			c.Path("/new/b")
		}
		return c.Next()
	})
	app.Get("/new/b", func(c fiber.Ctx) error { trace += "B"; return nil })
	do(app, "GET", "/old")
	if trace != "RB" {
		t.Fatalf("trace %q, want RB (rewrite middleware once, then the later route matching the new path)", trace)
	}
}

// F5m (C01): method override — open finding.
func TestF5m_MethodOverrideCursor(t *testing.T) {
	openFinding(t)
	app := fiber.New()
	trace := ""
	app.Get("/x", func(c fiber.Ctx) error { trace += "g"; return c.Next() })
	app.Get("/x/", func(c fiber.Ctx) error { trace += "h"; return c.Next() })
	app.Use(func(c fiber.Ctx) error {
		trace += "M"
		if c.Method() == "GET" {
			c.Method("POST")
		}
		return c.Next()
	})
	app.Post("/x", func(c fiber.Ctx) error { trace += "P"; return nil })
	rc := do(app, "GET", "/x")
	if !strings.HasSuffix(trace, "MP") || rc.Response.StatusCode() != 200 {
		t.Fatalf("trace %q status %d, want ...MP and 200", trace, rc.Response.StatusCode())
	}
}

type customCtx struct{ fiber.DefaultCtx }

// F6 (C01/C07): custom context + unknown method panicked (index -1).
func TestF6_CustomCtxUnknownMethod(t *testing.T) {
	app := fiber.New()
	app.NewCtxFunc(func(app *fiber.App) fiber.CustomCtx { return &customCtx{DefaultCtx: *fiber.NewDefaultCtx(app)} })
	app.Get("/", func(c fiber.Ctx) error { return c.SendString("ok") })
	defer func() {
		if r := recover(); r != nil {
			t.Fatalf("panic on unknown method with custom ctx: %v", r)
		}
	}()
	rc := do(app, "FOO", "/")
	if rc.Response.StatusCode() != 501 {
		t.Fatalf("status %d, want 501", rc.Response.StatusCode())
	}
}

// F17 (C01): addRoute appended merged handlers into a backing array shared by the per-method copies of one registration.
func TestF17_SharedHandlersBackingArray(t *testing.T) {
	app := fiber.New()
	nop := func(c fiber.Ctx) error { return c.Next() }
	app.All("/x", nop, nop, nop, nop, nop) // 5 handlers -> the variadic slice has spare capacity, shared by all method copies
	var ran string
	app.Get("/x", func(c fiber.Ctx) error { ran = "get"; return nil })
	app.Post("/x", func(c fiber.Ctx) error { ran = "post"; return nil })
	do(app, "GET", "/x")
	if ran != "get" {
		t.Fatalf("GET /x ran the %q handler: the handler merged into the GET route was overwritten by the POST registration", ran)
	}
}
