package witness

import (
	"testing"

	"github.com/gofiber/fiber/v3"
	"github.com/valyala/fasthttp"
)

// serve two requests on the same fasthttp.RequestCtx (= same connection buffers) and the same pooled fiber context
func serveTwice(app *fiber.App, first, second string) {
	var rc fasthttp.RequestCtx
	h := app.Handler()
	rc.Request.Header.SetMethod("GET")
	rc.Request.SetRequestURI(first)
	h(&rc)
	rc.Request.Reset()
	rc.Response.Reset()
	rc.Request.Header.SetMethod("GET")
	rc.Request.SetRequestURI(second)
	h(&rc)
}

// F8 (C06): with Immutable, Params handed out substrings of the routing buffer.
func TestF8_ImmutableParams(t *testing.T) {
	app := fiber.New(fiber.Config{Immutable: true})
	var kept []string
	app.Get("/p/:v", func(c fiber.Ctx) error { kept = append(kept, c.Params("v")); return nil })
	serveTwice(app, "/p/first", "/p/SECND")
	if kept[0] != "first" {
		t.Fatalf("value kept from the first request changed to %q after the second request", kept[0])
	}
}

type qStruct struct {
	Name string `query:"name"`
}

// F8b (C06): binders hand views of the request buffer to the decoder — open finding.
func TestF8b_ImmutableBinder(t *testing.T) {
	openFinding(t)
	app := fiber.New(fiber.Config{Immutable: true})
	var kept []*qStruct
	app.Get("/q", func(c fiber.Ctx) error {
		q := new(qStruct)
		if err := c.Bind().Query(q); err != nil {
			return err
		}
		kept = append(kept, q)
		return nil
	})
	serveTwice(app, "/q?name=first", "/q?name=SECND")
	if kept[0].Name != "first" {
		t.Fatalf("bound field kept from the first request changed to %q after the second request", kept[0].Name)
	}
}

// F18: c.Accepts lower-cases the parameter names of the Accept header in place — a value the handler
// obtained with c.Get("Accept") changes before the handler returns.
func TestF18_AcceptsLeavesHeaderAlone(t *testing.T) {
	app := fiber.New()
	var before, after string
	app.Get("/", func(c fiber.Ctx) error {
		before = string([]byte(c.Get("Accept")))
		held := c.Get("Accept")
		c.Accepts("text/html", "application/json")
		after = string([]byte(held))
		return nil
	})
	do(app, "GET", "/", "Accept", "text/html;Level=1;Q=0.9, application/json;Version=2")
	if before != after {
		t.Fatalf("the Accept header changed under the handler: %q -> %q", before, after)
	}
}
