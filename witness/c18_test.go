package witness

import (
	"context"
	"net"
	"strconv"
	"sync"
	"sync/atomic"
	"testing"
	"time"

	"github.com/gofiber/fiber/v3"
	"github.com/gofiber/fiber/v3/client"
	"github.com/valyala/fasthttp"
)

func mkCookie(k, v, path string, exp time.Time) *fasthttp.Cookie {
	c := &fasthttp.Cookie{}
	c.SetKey(k)
	c.SetValue(v)
	if path != "" {
		c.SetPath(path)
	}
	if !exp.IsZero() {
		c.SetExpire(exp)
	}
	return c
}

func uriOf(s string) *fasthttp.URI {
	u := fasthttp.AcquireURI()
	_ = u.Parse(nil, []byte(s))
	return u
}

// F15a (C18): path scoping direction — open finding (Test_CookieJarGet pins the reversed semantics).
func TestF15a_JarPathDirection(t *testing.T) {
	openFinding(t)
	jar := &client.CookieJar{}
	jar.Set(uriOf("http://h.test/"), mkCookie("k", "v", "/admin", time.Time{}))
	if n := len(jar.Get(uriOf("http://h.test/admin/x"))); n != 1 {
		t.Fatalf("cookie Path=/admin not returned for /admin/x (%d)", n)
	}
	if n := len(jar.Get(uriOf("http://h.test/ad"))); n != 0 {
		t.Fatalf("cookie Path=/admin returned for /ad (%d)", n)
	}
}

// F15b (C18): purging an expired cookie released it to the pool but left it referenced by the jar.
func TestF15b_PurgeStoresBack(t *testing.T) {
	jar := &client.CookieJar{}
	jar.Set(uriOf("http://a.test/"), mkCookie("old", "1", "", time.Now().Add(-time.Hour)), mkCookie("keep", "2", "", time.Time{}))
	_ = jar.Get(uriOf("http://a.test/")) // purges "old" and releases its object to fasthttp's cookie pool
	// the released object is handed out again and filled for another host
	jar.Set(uriOf("http://b.test/"), mkCookie("secret", "for-b", "", time.Time{}))
	for _, c := range jar.Get(uriOf("http://a.test/")) {
		if string(c.Key()) == "secret" {
			t.Fatalf("cookie stored for b.test is returned for a.test")
		}
	}
	if n := len(jar.Get(uriOf("http://a.test/"))); n != 1 {
		t.Fatalf("a.test has %d cookies, want 1", n)
	}
}

// F15c (C18): a cookie repeated by the server was appended to the jar again.
func TestF15c_NoDuplicateOnRepeat(t *testing.T) {
	app := fiber.New()
	app.Get("/", func(c fiber.Ctx) error {
		c.Cookie(&fiber.Cookie{Name: "sid", Value: "1"})
		return nil
	})
	ln, err := net.Listen("tcp", "127.0.0.1:0")
	if err != nil {
		t.Skip("no loopback listener")
	}
	go func() { _ = app.Listener(ln, fiber.ListenConfig{DisableStartupMessage: true}) }()
	defer func() { _ = app.Shutdown() }()
	jar := client.AcquireCookieJar()
	cl := client.New().SetCookieJar(jar)
	url := "http://" + ln.Addr().String() + "/"
	for i := 0; i < 3; i++ {
		resp, err := cl.Get(url)
		if err != nil {
			t.Fatal(err)
		}
		resp.Close()
	}
	// F15d: the jar must find the cookies it stored for host:port
	got := jar.Get(uriOf(url))
	if len(got) != 1 {
		t.Fatalf("jar returns %d cookies for the host after 3 identical Set-Cookie responses, want 1", len(got))
	}
}

// F15f (C18): Request.Reset kept the client.
func TestF15f_RequestResetClearsClient(t *testing.T) {
	c1 := client.New()
	r := client.AcquireRequest().SetClient(c1)
	client.ReleaseRequest(r)
	for i := 0; i < 100; i++ {
		r2 := client.AcquireRequest()
		if r2.Client() == c1 {
			t.Fatalf("an acquired Request still points to the previous owner's Client")
		}
		defer client.ReleaseRequest(r2)
	}
}

// F15e (C18): stress — a response handed back must belong to its request also while others time out.
func TestF15e_ResponseOwnershipStress(t *testing.T) {
	if testing.Short() {
		t.Skip()
	}
	app := fiber.New()
	var lat atomic.Int64
	lat.Store(int64(2 * time.Millisecond))
	app.Get("/:id", func(c fiber.Ctx) error {
		time.Sleep(time.Duration(lat.Load()))
		return c.SendString(c.Params("id"))
	})
	ln, err := net.Listen("tcp", "127.0.0.1:0")
	if err != nil {
		t.Skip("no loopback listener")
	}
	go func() { _ = app.Listener(ln, fiber.ListenConfig{DisableStartupMessage: true}) }()
	defer func() { _ = app.Shutdown() }()
	cl := client.New()
	base := "http://" + ln.Addr().String() + "/"
	var wrong atomic.Int32
	var wg sync.WaitGroup
	deadline := time.Now().Add(4 * time.Second)
	for w := 0; w < 16; w++ {
		wg.Add(1)
		go func(w int) {
			defer wg.Done()
			for i := 0; time.Now().Before(deadline); i++ {
				id := strconv.Itoa(w*1000000 + i)
				ctx, cancel := context.WithTimeout(context.Background(), time.Duration(1500+i%1500)*time.Microsecond)
				resp, err := cl.Get(base+id, client.Config{Ctx: ctx})
				if err == nil {
					if string(resp.Body()) != id {
						wrong.Add(1)
					}
					resp.Close()
				}
				cancel()
			}
		}(w)
	}
	wg.Wait()
	if wrong.Load() != 0 {
		t.Fatalf("%d responses did not belong to their request", wrong.Load())
	}
}

// F15g (C18): updating an existing host entry re-aliased the stored map key to the caller's buffer.
func TestF15g_JarKeyNotAliased(t *testing.T) {
	jar := &client.CookieJar{}
	buf := []byte("a.example")
	jar.SetByHost(buf, mkCookie("k1", "v1", "", time.Time{}))
	jar.SetByHost(buf, mkCookie("k2", "v2", "", time.Time{})) // existing key: `hostCookies[unsafeString(buf)] = …` replaces the stored key
	copy(buf, "b.example")                                    // the caller reuses its buffer (pooled requests do)
	if n := len(jar.Get(uriOf("http://a.example/"))); n != 2 {
		t.Fatalf("cookies stored for a.example: jar returns %d of 2 after the caller's host buffer was reused", n)
	}
	if n := len(jar.Get(uriOf("http://b.example/"))); n != 0 {
		t.Fatalf("jar returns %d cookies for b.example, which never stored any", n)
	}
}

// F30: path parameters were substituted in map-iteration order with strings.ReplaceAll; when one key
// is a prefix of another the resulting URL differed from run to run.
func TestF30_PathParameterSubstitutionIsDeterministic(t *testing.T) {
	app := fiber.New()
	app.Get("/*", func(c fiber.Ctx) error { return c.SendString(c.Path()) })
	ln, err := net.Listen("tcp", "127.0.0.1:0")
	if err != nil {
		t.Skip("no loopback listener")
	}
	go func() { _ = app.Listener(ln, fiber.ListenConfig{DisableStartupMessage: true}) }()
	defer func() { _ = app.Shutdown() }()
	seen := map[string]int{}
	for i := 0; i < 60; i++ {
		resp, err := client.New().R().SetPathParam("id", "1").SetPathParam("idx", "2").Get("http://" + ln.Addr().String() + "/u/:idx/:id")
		if err != nil {
			t.Fatal(err)
		}
		seen[string(resp.Body())]++
		resp.Close()
	}
	if len(seen) != 1 || seen["/u/2/1"] == 0 {
		t.Fatalf("one configuration, several URLs: %v (want /u/2/1 every time)", seen)
	}
}
