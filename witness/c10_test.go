package witness

import (
	"net"
	"testing"

	"github.com/gofiber/fiber/v3"
)

// F11 (C10): Secure() compared the HTTP version with "https".
func TestF11_SecureDerivesFromScheme(t *testing.T) {
	app := fiber.New(fiber.Config{TrustProxy: true, TrustProxyConfig: fiber.TrustProxyConfig{Proxies: []string{"0.0.0.0"}}})
	var scheme string
	var secure bool
	app.Get("/", func(c fiber.Ctx) error { scheme, secure = c.Scheme(), c.Secure(); return nil })
	do(app, "GET", "/", "X-Forwarded-Proto", "https")
	if scheme != "https" {
		t.Fatalf("precondition: trusted peer, Scheme()=%q", scheme)
	}
	if !secure {
		t.Fatalf("Scheme()==https but Secure()==false")
	}
}

// F24: a single proxy address was recorded under its spelling in the configuration but looked up
// under the canonical form of the peer address: "2001:DB8::1" never matched the peer 2001:db8::1.
func TestF24_ProxyAddressSpelling(t *testing.T) {
	for _, spelled := range []string{"2001:DB8::1", "2001:0db8::1", "2001:db8:0:0:0:0:0:1"} {
		app := fiber.New(fiber.Config{TrustProxy: true, TrustProxyConfig: fiber.TrustProxyConfig{Proxies: []string{spelled}}})
		var trusted bool
		app.Get("/", func(c fiber.Ctx) error { trusted = c.IsProxyTrusted(); return nil })
		rc := newRC("GET", "/")
		rc.SetRemoteAddr(&net.TCPAddr{IP: net.ParseIP("2001:db8::1"), Port: 1234})
		app.Handler()(rc)
		if !trusted {
			t.Errorf("Proxies: [%q] does not trust the peer 2001:db8::1", spelled)
		}
	}
}
