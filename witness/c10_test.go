package witness

import (
	"testing"

	"github.com/gofiber/fiber/v3"
)

// F11 (C10): Secure() compared the HTTP version with "https".
func TestF11_SecureDerivesFromScheme(t *testing.T) {
	app := fiber.New(fiber.Config{TrustProxy: true, TrustProxyConfig: fiber.TrustProxyConfig{Proxies: []string{"0.0.0.0"}}})
	var scheme string
	var secure bool
	app.Get("/", func(c fiber.Ctx) error { scheme, secure = c.Scheme(), c.Secure(); return nil })
	do(app, "GET", "/", "X-Forwarded-Proto", "https")
	if scheme != "https" {
		t.Fatalf("precondition: trusted peer, Scheme()=%q", scheme)
	}
	if !secure {
		t.Fatalf("Scheme()==https but Secure()==false")
	}
}
