package witness

import (
	"errors"
	"testing"

	"github.com/gofiber/fiber/v3"
)

// F10 (C08): handler selection depended on map iteration order and ignored segment boundaries.
func TestF10_ErrorHandlerSelection(t *testing.T) {
	mk := func(tag string) *fiber.App {
		sub := fiber.New(fiber.Config{ErrorHandler: func(c fiber.Ctx, err error) error { return c.Status(500).SendString(tag) }})
		sub.Get("/x", func(c fiber.Ctx) error { return errors.New("boom") })
		return sub
	}
	seen := map[string]int{}
	for i := 0; i < 64; i++ {
		app := fiber.New(fiber.Config{ErrorHandler: func(c fiber.Ctx, err error) error { return c.Status(500).SendString("root") }})
		app.Use("/api", mk("A"))
		app.Use("/api-v2", mk("B"))
		for j := 0; j < 8; j++ {
			seen[string(do(app, "GET", "/api-v2/x").Response.Body())]++
		}
	}
	if len(seen) != 1 || seen["B"] == 0 {
		t.Fatalf("error of /api-v2/x was answered by %v, want always B", seen)
	}
}

// F39: routing ignores letter case by default, the choice of the mounted error handler did not:
// a request that ran a sub-app's route under /API had its error delivered to the root handler.
func TestF39_MountedErrorHandlerFollowsCaseInsensitiveRouting(t *testing.T) {
	sub := fiber.New(fiber.Config{ErrorHandler: func(c fiber.Ctx, err error) error { return c.Status(500).SendString("sub") }})
	sub.Get("/boom", func(c fiber.Ctx) error { return errors.New("boom") })
	root := fiber.New(fiber.Config{ErrorHandler: func(c fiber.Ctx, err error) error { return c.Status(500).SendString("root") }})
	root.Use("/api", sub)
	for _, p := range []string{"/api/boom", "/API/boom", "/Api/BOOM"} {
		if got := string(do(root, "GET", p).Response.Body()); got != "sub" {
			t.Errorf("GET %s: error handled by %q, want the sub-app's handler", p, got)
		}
	}
}
