package witness

import (
	"testing"
	"time"

	"github.com/gofiber/fiber/v3"
	"github.com/gofiber/fiber/v3/middleware/limiter"
)

// F12 (C13): the sliding window ignored MaxFunc.
func TestF12_SlidingWindowMaxFunc(t *testing.T) {
	for _, algo := range []limiter.Handler{limiter.FixedWindow{}, limiter.SlidingWindow{}} {
		app := fiber.New()
		app.Use(limiter.New(limiter.Config{Max: 100, MaxFunc: func(fiber.Ctx) int { return 2 }, Expiration: time.Minute, LimiterMiddleware: algo}))
		ran := 0
		app.Get("/", func(c fiber.Ctx) error { ran++; return nil })
		for i := 0; i < 6; i++ {
			do(app, "GET", "/")
		}
		if ran != 2 {
			t.Fatalf("%T: handler ran %d times with MaxFunc→2", algo, ran)
		}
	}
}
