package witness

import (
	"testing"
	"time"

	"github.com/gofiber/fiber/v3"
	"github.com/gofiber/fiber/v3/middleware/limiter"
)

// F12 (C13): the sliding window ignored MaxFunc.
func TestF12_SlidingWindowMaxFunc(t *testing.T) {
	for _, algo := range []limiter.Handler{limiter.FixedWindow{}, limiter.SlidingWindow{}} {
		app := fiber.New()
		app.Use(limiter.New(limiter.Config{Max: 100, MaxFunc: func(fiber.Ctx) int { return 2 }, Expiration: time.Minute, LimiterMiddleware: algo}))
		ran := 0
		app.Get("/", func(c fiber.Ctx) error { ran++; return nil })
		for i := 0; i < 6; i++ {
			do(app, "GET", "/")
		}
		if ran != 2 {
			t.Fatalf("%T: handler ran %d times with MaxFunc→2", algo, ran)
		}
	}
}

// F22: limiter.New() without a config took ConfigDefault as is — its MaxFunc is nil — and the first
// request dereferenced it.
func TestF22_LimiterDefaultConfigServesRequests(t *testing.T) {
	defer func() {
		if r := recover(); r != nil {
			t.Fatalf("a request to an app using limiter.New() crashed: %v", r)
		}
	}()
	app := fiber.New()
	app.Use(limiter.New())
	app.Get("/", func(c fiber.Ctx) error { return c.SendString("ok") })
	rc := do(app, "GET", "/")
	if rc.Response.StatusCode() != 200 {
		t.Fatalf("status %d", rc.Response.StatusCode())
	}
}
