package witness

import (
	"testing"
	"time"

	"github.com/gofiber/fiber/v3"
	"github.com/gofiber/fiber/v3/middleware/limiter"
	"github.com/gofiber/utils/v2"
)

// F12 (C13): the sliding window ignored MaxFunc.
func TestF12_SlidingWindowMaxFunc(t *testing.T) {
	for _, algo := range []limiter.Handler{limiter.FixedWindow{}, limiter.SlidingWindow{}} {
		app := fiber.New()
		app.Use(limiter.New(limiter.Config{Max: 100, MaxFunc: func(fiber.Ctx) int { return 2 }, Expiration: time.Minute, LimiterMiddleware: algo}))
		ran := 0
		app.Get("/", func(c fiber.Ctx) error { ran++; return nil })
		for i := 0; i < 6; i++ {
			do(app, "GET", "/")
		}
		if ran != 2 {
			t.Fatalf("%T: handler ran %d times with MaxFunc→2", algo, ran)
		}
	}
}

// F22: limiter.New() without a config took ConfigDefault as is — its MaxFunc is nil — and the first
// request dereferenced it.
func TestF22_LimiterDefaultConfigServesRequests(t *testing.T) {
	defer func() {
		if r := recover(); r != nil {
			t.Fatalf("a request to an app using limiter.New() crashed: %v", r)
		}
	}()
	app := fiber.New()
	app.Use(limiter.New())
	app.Get("/", func(c fiber.Ctx) error { return c.SendString("ok") })
	rc := do(app, "GET", "/")
	if rc.Response.StatusCode() != 200 {
		t.Fatalf("status %d", rc.Response.StatusCode())
	}
}

func waitTick() uint32 {
	utils.StartTimeStampUpdater()
	a := utils.Timestamp()
	for utils.Timestamp() == a {
		time.Sleep(time.Millisecond)
	}
	return utils.Timestamp()
}

// F23: the skip path of the sliding window re-stored the entry with the plain expiration as TTL;
// the entry then vanished at the end of the window and the previous window's hits no longer counted.
func TestF23_SlidingWindowSkipPathKeepsPreviousWindow(t *testing.T) {
	app := fiber.New()
	app.Use(limiter.New(limiter.Config{Max: 5, Expiration: 2 * time.Second, SkipFailedRequests: true, LimiterMiddleware: limiter.SlidingWindow{}}))
	app.Get("/:s", func(c fiber.Ctx) error {
		if c.Params("s") == "fail" {
			return c.SendStatus(400)
		}
		return c.SendStatus(200)
	})
	t0 := waitTick()
	for i := 0; i < 4; i++ {
		if do(app, "GET", "/ok").Response.StatusCode() != 200 {
			t.Fatal("setup")
		}
	}
	if do(app, "GET", "/fail").Response.StatusCode() != 400 {
		t.Fatal("setup fail")
	}
	for utils.Timestamp() < t0+2 {
		time.Sleep(time.Millisecond)
	}
	admitted := 0
	for i := 0; i < 5; i++ {
		if do(app, "GET", "/ok").Response.StatusCode() == 200 {
			admitted++
		}
	}
	if admitted > 3 {
		t.Errorf("previous window had 4 hits, Max 5: %d admitted right at the window edge (the sliding window allows at most 3)", admitted)
	}
}
