package witness

import (
	"testing"
	"time"

	"github.com/gofiber/fiber/v3"
	"github.com/gofiber/fiber/v3/middleware/session"
	"github.com/valyala/fasthttp"
)

// F33: Reset() wipes the session data — which holds the absolute deadline — and gives the session a new
// id without stamping a new deadline: a session saved after Reset never expires absolutely.
func TestF33_ResetKeepsAnAbsoluteDeadline(t *testing.T) {
	store := session.NewStore(session.Config{IdleTimeout: time.Second, AbsoluteTimeout: time.Second})
	store.IdleTimeout = time.Hour // only the absolute timeout can end the session below
	app := fiber.New()
	ctx := app.AcquireCtx(&fasthttp.RequestCtx{})
	sess, err := store.Get(ctx)
	if err != nil {
		t.Fatal(err)
	}
	if err := sess.Reset(); err != nil {
		t.Fatal(err)
	}
	sess.Set("b", 2)
	id := sess.ID()
	if err := sess.Save(); err != nil {
		t.Fatal(err)
	}
	time.Sleep(1500 * time.Millisecond)
	if s2, err := store.GetByID(id); err == nil && s2 != nil {
		t.Fatalf("the session saved after Reset is still alive 1.5 s later although AbsoluteTimeout is 1 s")
	}
}
