package witness

import (
	"strings"
	"testing"

	"github.com/gofiber/fiber/v3"
	"github.com/gofiber/fiber/v3/middleware/encryptcookie"
	recoverer "github.com/gofiber/fiber/v3/middleware/recover"
	"github.com/valyala/fasthttp"
)

// F16 (C20): duplicate cookie names bypassed decryption.
func TestF16_DuplicateCookieNames(t *testing.T) {
	key := encryptcookie.GenerateKey(32)
	app := fiber.New()
	app.Use(encryptcookie.New(encryptcookie.Config{Key: key}))
	var seen []string
	app.Get("/", func(c fiber.Ctx) error {
		seen = nil
		c.Request().Header.VisitAllCookie(func(k, v []byte) { seen = append(seen, string(k)+"="+string(v)) })
		return nil
	})
	valid, err := encryptcookie.EncryptCookie("secret", key)
	if err != nil {
		t.Fatal(err)
	}
	var rc fasthttp.RequestCtx
	rc.Request.Header.SetMethod("GET")
	rc.Request.SetRequestURI("/")
	rc.Request.Header.Set("Cookie", "a="+valid+"; a=ATTACKER")
	app.Handler()(&rc)
	for _, s := range seen {
		if strings.Contains(s, "ATTACKER") {
			t.Fatalf("unauthenticated cookie text reached the handler: %v", seen)
		}
	}
}

// F32: a handler that set a cookie and then panicked — with the recover middleware in front of
// encryptcookie — sent the cookie in clear: the encryption pass only ran after a normal return.
func TestF32_CookieSetBeforePanicIsEncrypted(t *testing.T) {
	app := fiber.New()
	app.Use(recoverer.New())
	app.Use(encryptcookie.New(encryptcookie.Config{Key: encryptcookie.GenerateKey(32)}))
	app.Get("/", func(c fiber.Ctx) error {
		c.Cookie(&fiber.Cookie{Name: "sid", Value: "secret-session-id"})
		panic("boom")
	})
	rc := do(app, "GET", "/")
	if v := string(rc.Response.Header.PeekCookie("sid")); strings.Contains(v, "secret-session-id") {
		t.Fatalf("status %d, Set-Cookie carries the plaintext: %q", rc.Response.StatusCode(), v)
	}
}
