package witness

import (
	"testing"
	"time"

	"github.com/gofiber/fiber/v3"
	"github.com/gofiber/fiber/v3/middleware/session"
	"github.com/valyala/fasthttp"
)

// F66: the bundled memory storage kept the expiry as uint32(lifetime seconds) + uint32(now): for a lifetime
// of about 80 years or more ("practically for ever") the sum wraps round and lands in the past — the entry
// is expired the moment it is stored, the session that was just saved cannot be loaded.
func TestF66_VeryLongLifetimeDoesNotWrapIntoThePast(t *testing.T) {
	store := session.NewStore(session.Config{IdleTimeout: 100 * 365 * 24 * time.Hour})
	app := fiber.New()
	ctx := app.AcquireCtx(&fasthttp.RequestCtx{})
	sess, err := store.Get(ctx)
	if err != nil {
		t.Fatal(err)
	}
	sess.Set("k", "v")
	id := sess.ID()
	if err := sess.Save(); err != nil {
		t.Fatal(err)
	}
	s2, err := store.GetByID(id)
	if err != nil || s2 == nil {
		t.Fatalf("a session saved with IdleTimeout = 100 years is gone at once: %v", err)
	}
	if s2.Get("k") != "v" {
		t.Fatalf("data lost: %v", s2.Get("k"))
	}
}

// F67 (C08): a sub-app mounted through a group whose prefix was written without its leading slash is routed
// under "/v1/john" but was recorded under "v1/john" — no request path starts with that, the sub-app's
// error handler was never chosen (the sibling of F55, which repaired App.mount only).
func TestF67_GroupMountPrefixWithoutLeadingSlash(t *testing.T) {
	sub := fiber.New(fiber.Config{ErrorHandler: func(c fiber.Ctx, _ error) error { return c.Status(500).SendString("sub") }})
	sub.Get("/doe", func(fiber.Ctx) error { return fiber.ErrTeapot })
	app := fiber.New(fiber.Config{ErrorHandler: func(c fiber.Ctx, _ error) error { return c.Status(500).SendString("root") }})
	app.Group("v1").Use("/john", sub)
	if got := string(do(app, "GET", "/v1/john/doe").Response.Body()); got != "sub" {
		t.Fatalf("error raised in the sub-app mounted with Group(\"v1\").Use(\"/john\", sub) was handled by %q", got)
	}
}
