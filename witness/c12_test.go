package witness

import (
	"runtime"
	"strings"
	"testing"

	"github.com/gofiber/fiber/v3"
	"github.com/valyala/fasthttp"
)

func flashReq(app *fiber.App, cookie []byte) *fasthttp.RequestCtx {
	var rc fasthttp.RequestCtx
	rc.Request.Header.SetMethod("GET")
	rc.Request.SetRequestURI("/show")
	if cookie != nil {
		// raw header so that the entry point's cheap pre-filter (RawHeaders contains the name) fires
		raw := append([]byte("GET /show HTTP/1.1\r\nHost: x\r\nCookie: fiber_flash="), cookie...)
		raw = append(raw, "\r\n\r\n"...)
		_ = rc.Request.Header.Read(bufReader(raw))
	}
	app.Handler()(&rc)
	return &rc
}

func flashApp(seen *[]string) *fiber.App {
	app := fiber.New()
	app.Get("/show", func(c fiber.Ctx) error {
		*seen = nil
		for _, m := range c.Redirect().Messages() {
			*seen = append(*seen, m.Key+"="+m.Value)
		}
		return nil
	})
	return app
}

// F7a (C05/C12): stale fields of a previous request's message surfaced through `\x91\x80`.
func TestF7a_FlashStaleFields(t *testing.T) {
	var seen []string
	app := flashApp(&seen)
	// request 1: a full message (array of 1 map with key/value)
	full := []byte("\x91\x82\xa3key\xa6secret\xa5value\xa5token") // (level/isOldInput omitted: fasthttp rejects header values with control bytes)
	flashReq(app, full)
	if len(seen) != 1 || seen[0] != "secret=token" {
		t.Fatalf("precondition: request 1 sees %v", seen)
	}
	// request 2 (another client): array of one EMPTY map
	flashReq(app, []byte("\x91\x80"))
	for _, s := range seen {
		if strings.Contains(s, "secret") || strings.Contains(s, "token") {
			t.Fatalf("request 2 observes request 1's flash message: %v", seen)
		}
	}
}

// F7a' (C12): a malformed cookie must yield no messages.
func TestF7a_FlashMalformedYieldsNothing(t *testing.T) {
	var seen []string
	app := flashApp(&seen)
	// two announced, first complete, second truncated
	flashReq(app, []byte("\x92\x82\xa3key\xa1a\xa5value\xa1b\x82\xa3key"))
	if len(seen) != 0 {
		t.Fatalf("malformed cookie yields messages: %v", seen)
	}
}

// F7b (C07/C12): a 5-byte cookie announcing 2^32-1 messages made the server allocate gigabytes.
func TestF7b_FlashBoundedAllocation(t *testing.T) {
	var seen []string
	app := flashApp(&seen)
	var before, after runtime.MemStats
	runtime.GC()
	runtime.ReadMemStats(&before)
	func() {
		defer func() { _ = recover() }()
		// fasthttp 1.60 rejects control bytes in header values at parse time, so on the wire the smallest
		// 32-bit announcement is 0x21212121 (26 GB). To keep the witness harmless the cookie is set
		// programmatically: array32 header announcing 16.7 million messages (≈800 MB) in 5 bytes.
		var rc fasthttp.RequestCtx
		_ = rc.Request.Header.Read(bufReader([]byte("GET /show HTTP/1.1\r\nHost: x\r\nX-Note: fiber_flash\r\n\r\n")))
		rc.Request.Header.SetCookieBytesKV([]byte("fiber_flash"), []byte("\xdd\x01\x00\x00\x00"))
		app.Handler()(&rc)
	}()
	runtime.ReadMemStats(&after)
	if grown := after.TotalAlloc - before.TotalAlloc; grown > 64<<20 {
		t.Fatalf("a 5-byte cookie made the server allocate %d MiB", grown>>20)
	}
}

// F7c (C12): the flash cookie was never expired.
func TestF7c_FlashCookieExpired(t *testing.T) {
	var seen []string
	app := flashApp(&seen)
	rc := flashReq(app, []byte("\x91\x82\xa3key\xa1a\xa5value\xa1b"))
	if len(seen) != 1 {
		t.Fatalf("precondition: %v", seen)
	}
	found := false
	rc.Response.Header.VisitAllCookie(func(k, v []byte) {
		if string(k) == "fiber_flash" {
			var c fasthttp.Cookie
			_ = c.ParseBytes(v)
			if !c.Expire().IsZero() && c.Expire().Before(fasthttp.CookieExpireUnlimited.AddDate(3000, 0, 0)) && len(c.Value()) == 0 {
				found = true
			}
		}
	})
	if !found {
		t.Fatalf("response does not expire fiber_flash: a conforming client replays the messages on every request")
	}
}

// F7d (C12): the cookie value is raw MessagePack — open finding (redirect_test.go decodes the raw cookie).
func TestF7d_FlashCookieWireSafe(t *testing.T) {
	openFinding(t)
	app := fiber.New()
	app.Get("/r", func(c fiber.Ctx) error { return c.Redirect().With("k", "v").To("/show") })
	rc := do(app, "GET", "/r")
	v := rc.Response.Header.Peek("Set-Cookie")
	for _, b := range v {
		if b < 0x20 || b == 0x7f {
			t.Fatalf("Set-Cookie carries control byte %#x: fasthttp itself rejects the request header when a client sends this cookie back (%q)", b, v)
		}
	}
}

// F26: the flash cookie is issued with Path=/ but expired without a Path attribute. For a landing URL
// below a directory (/a/next) an RFC 6265 client files the expiry under the default path /a and keeps
// the original: the messages are presented again.
func TestF26_FlashCookieIsExpiredOnItsOwnPath(t *testing.T) {
	app := fiber.New()
	app.Get("/go", func(c fiber.Ctx) error { return c.Redirect().With("k", "v", 65).To("/a/next") })
	app.Get("/a/next", func(c fiber.Ctx) error { return nil })
	rc := do(app, "GET", "/go")
	set := string(rc.Response.Header.PeekCookie("fiber_flash"))
	if !strings.Contains(strings.ToLower(set), "path=/") {
		t.Skipf("precondition: the flash cookie is not issued with path=/ (%q)", set)
	}
	// present a (wire-safe) flash cookie on a landing URL below a directory
	var rc2 fasthttp.RequestCtx
	raw := []byte("GET /a/next HTTP/1.1\r\nHost: x\r\nCookie: fiber_flash=\x91\x82\xa3key\xa1a\xa5value\xa1b\r\n\r\n")
	if err := rc2.Request.Header.Read(bufReader(raw)); err != nil {
		t.Fatal(err)
	}
	app.Handler()(&rc2)
	exp := string(rc2.Response.Header.PeekCookie("fiber_flash"))
	if exp == "" {
		t.Fatal("precondition: the cookie was not consumed")
	}
	if !strings.Contains(strings.ToLower(exp), "path=/") {
		t.Fatalf("issued as %q but expired as %q: a client requesting /a/next files the expiry under /a and keeps the cookie", set, exp)
	}
}
