package witness

import (
	"sync"
	"sync/atomic"
	"testing"
	"time"

	"github.com/gofiber/fiber/v3"
	"github.com/gofiber/fiber/v3/middleware/cache"
	"github.com/valyala/fasthttp"
)

// barrierStore lets two concurrent Get calls for the armed key return together.
type barrierStore struct {
	mu      sync.Mutex
	m       map[string][]byte
	armed   atomic.Bool
	waiting atomic.Int32
}

func (s *barrierStore) Get(key string) ([]byte, error) {
	s.mu.Lock()
	v := s.m[key]
	s.mu.Unlock()
	if s.armed.Load() && v != nil && len(key) > 0 && key[len(key)-1] != 'y' { // not the *_body key
		s.waiting.Add(1)
		deadline := time.Now().Add(300 * time.Millisecond)
		for s.waiting.Load() < 2 && time.Now().Before(deadline) {
			time.Sleep(time.Millisecond)
		}
	}
	return v, nil
}
func (s *barrierStore) Set(key string, val []byte, _ time.Duration) error {
	s.mu.Lock()
	s.m[key] = append([]byte(nil), val...)
	s.mu.Unlock()
	return nil
}
func (s *barrierStore) Delete(key string) error {
	s.mu.Lock()
	delete(s.m, key)
	s.mu.Unlock()
	return nil
}
func (s *barrierStore) Reset() error { return nil }
func (s *barrierStore) Close() error { return nil }

// F13 (C14): the entry was fetched before the lock; two requests that both see it expired
// removed the same heap slot twice.
func TestF13_CacheEntryFetchedOutsideLock(t *testing.T) {
	st := &barrierStore{m: map[string][]byte{}}
	app := fiber.New()
	app.Use(cache.New(cache.Config{Storage: st, MaxBytes: 1 << 20, Expiration: time.Hour,
		ExpirationGenerator: func(fiber.Ctx, *cache.Config) time.Duration { return 0 }})) // exp == ts: expired at once
	app.Get("/", func(c fiber.Ctx) error {
		if st.armed.Load() {
			time.Sleep(50 * time.Millisecond) // keep the first request between its two critical sections
		}
		return c.SendString("hello")
	})
	do(app, "GET", "/") // store one entry (heap has one slot)
	st.armed.Store(true)
	var wg sync.WaitGroup
	var panics atomic.Int32
	for i := 0; i < 2; i++ {
		wg.Add(1)
		go func() {
			defer wg.Done()
			defer func() {
				if r := recover(); r != nil {
					panics.Add(1)
				}
			}()
			do(app, "GET", "/")
		}()
	}
	done := make(chan struct{})
	go func() { wg.Wait(); close(done) }()
	select {
	case <-done:
	case <-time.After(3 * time.Second):
		t.Fatalf("deadlock: a request panicked inside the critical section (%d panics) and left the cache mutex locked", panics.Load())
	}
	if panics.Load() != 0 {
		t.Fatalf("%d request(s) panicked: both saw the same expired entry and removed its heap slot twice", panics.Load())
	}
}

// F34: a no-cache request for a live key re-stored the entry without taking the old one out of the
// expiration heap: the bytes were counted twice and the orphan's eviction later deleted the live entry.
func TestF34_NoCacheRefreshKeepsTheAccounting(t *testing.T) {
	app := fiber.New()
	n := 0
	app.Use(cache.New(cache.Config{MaxBytes: 2, Expiration: time.Hour}))
	app.Get("/:k", func(c fiber.Ctx) error { n++; return c.SendString("x") })
	do(app, "GET", "/a")                              // stored: 1 byte
	do(app, "GET", "/a", "Cache-Control", "no-cache") // refreshed: still 1 byte
	do(app, "GET", "/b")                              // stored: 2 bytes, fits
	before := n
	rc := do(app, "GET", "/a")
	if n != before || string(rc.Response.Header.Peek("X-Cache")) != "hit" {
		t.Fatalf("/a is no longer cached after /b was stored (X-Cache=%q): two 1-byte entries fit into MaxBytes=2", rc.Response.Header.Peek("X-Cache"))
	}
}

// F35 (open): with StoreResponseHeaders a header the origin sent twice comes back once from the cache:
// the stored headers are a map keyed by header name.
func TestF35_RepeatedHeadersSurviveTheCache(t *testing.T) {
	openFinding(t)
	app := fiber.New()
	app.Use(cache.New(cache.Config{StoreResponseHeaders: true, Expiration: time.Hour}))
	app.Get("/", func(c fiber.Ctx) error {
		c.Response().Header.Add("Link", "<a>; rel=x")
		c.Response().Header.Add("Link", "<b>; rel=y")
		return c.SendString("ok")
	})
	count := func(rc *fasthttp.RequestCtx) int {
		n := 0
		rc.Response.Header.VisitAll(func(k, _ []byte) {
			if string(k) == "Link" {
				n++
			}
		})
		return n
	}
	miss, hit := count(do(app, "GET", "/")), count(do(app, "GET", "/"))
	if miss != hit {
		t.Fatalf("origin response carries %d Link headers, the cached one %d", miss, hit)
	}
}
