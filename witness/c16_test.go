package witness

import (
	"testing"

	"github.com/gofiber/fiber/v3"
	"github.com/gofiber/fiber/v3/middleware/csrf"
	"github.com/valyala/fasthttp"
)

// F14 (C16): the referer was matched as a full URL against wildcard trusted origins.
func TestF14_RefererWildcardSuffix(t *testing.T) {
	app := fiber.New()
	app.Use(csrf.New(csrf.Config{TrustedOrigins: []string{"https://*.example.com"}}))
	ran := false
	app.Post("/", func(c fiber.Ctx) error { ran = true; return nil })
	app.Get("/", func(c fiber.Ctx) error { return nil })

	// obtain a live token
	rc := do(app, "GET", "/")
	var ck fasthttp.Cookie
	if err := ck.ParseBytes(rc.Response.Header.Peek("Set-Cookie")); err != nil {
		t.Fatal(err)
	}
	token := string(ck.Value())

	var r2 fasthttp.RequestCtx
	r2.Request.Header.SetMethod("POST")
	r2.Request.SetRequestURI("/")
	r2.Request.Header.Set("X-Forwarded-Proto", "https") // TrustProxy is off: IsProxyTrusted() is true, scheme https
	r2.Request.Header.Set("Referer", "https://evil.com/x.example.com")
	r2.Request.Header.Set("X-Csrf-Token", token)
	r2.Request.Header.SetCookie("csrf_", token)
	app.Handler()(&r2)
	if ran {
		t.Fatalf("POST from https://evil.com (path ending in .example.com) reached the handler, status %d", r2.Response.StatusCode())
	}
}
