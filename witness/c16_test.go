package witness

import (
	"errors"
	"strings"
	"testing"
	"time"

	"github.com/gofiber/fiber/v3"
	"github.com/gofiber/fiber/v3/middleware/csrf"
	"github.com/valyala/fasthttp"
)

// F14 (C16): the referer was matched as a full URL against wildcard trusted origins.
func TestF14_RefererWildcardSuffix(t *testing.T) {
	app := fiber.New()
	app.Use(csrf.New(csrf.Config{TrustedOrigins: []string{"https://*.example.com"}}))
	ran := false
	app.Post("/", func(c fiber.Ctx) error { ran = true; return nil })
	app.Get("/", func(c fiber.Ctx) error { return nil })

	// obtain a live token
	rc := do(app, "GET", "/")
	var ck fasthttp.Cookie
	if err := ck.ParseBytes(rc.Response.Header.Peek("Set-Cookie")); err != nil {
		t.Fatal(err)
	}
	token := string(ck.Value())

	var r2 fasthttp.RequestCtx
	r2.Request.Header.SetMethod("POST")
	r2.Request.SetRequestURI("/")
	r2.Request.Header.Set("X-Forwarded-Proto", "https") // TrustProxy is off: IsProxyTrusted() is true, scheme https
	r2.Request.Header.Set("Referer", "https://evil.com/x.example.com")
	r2.Request.Header.Set("X-Csrf-Token", token)
	r2.Request.Header.SetCookie("csrf_", token)
	app.Handler()(&r2)
	if ran {
		t.Fatalf("POST from https://evil.com (path ending in .example.com) reached the handler, status %d", r2.Response.StatusCode())
	}
}

type failingDeleteStore struct {
	m map[string][]byte
}

func (s *failingDeleteStore) Get(k string) ([]byte, error)                  { return s.m[k], nil }
func (s *failingDeleteStore) Set(k string, v []byte, _ time.Duration) error { s.m[k] = v; return nil }
func (s *failingDeleteStore) Delete(string) error                           { return errors.New("storage is down") }
func (s *failingDeleteStore) Reset() error                                  { return nil }
func (s *failingDeleteStore) Close() error                                  { return nil }

// F36: with SingleUseToken the token is consumed by deleting it from the store. The store's error was
// dropped: when the delete fails the request still went through and the token stayed valid.
func TestF36_SingleUseTokenNeedsTheDeleteToSucceed(t *testing.T) {
	app := fiber.New()
	app.Use(csrf.New(csrf.Config{SingleUseToken: true, Storage: &failingDeleteStore{m: map[string][]byte{}}}))
	ran := 0
	app.Get("/", func(c fiber.Ctx) error { return nil })
	app.Post("/", func(c fiber.Ctx) error { ran++; return nil })
	rc := do(app, "GET", "/")
	ck := string(rc.Response.Header.PeekCookie("csrf_"))
	tok := ck[len("csrf_="):]
	if i := strings.IndexByte(tok, ';'); i >= 0 {
		tok = tok[:i]
	}
	for i := 0; i < 2; i++ {
		do(app, "POST", "/", "X-Csrf-Token", tok, "Cookie", "csrf_="+tok)
	}
	if ran != 0 {
		t.Fatalf("the token store failed to consume the single-use token, yet %d unsafe request(s) reached the handler with it", ran)
	}
}
