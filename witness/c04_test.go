package witness

import (
	"testing"

	"github.com/gofiber/fiber/v3"
)

// F3 (C04): mounting under a parameterised prefix kept the sub-app's own parameter names.
func TestF3_MountParamPrefix(t *testing.T) {
	build := func(mount bool) *fiber.App {
		app := fiber.New()
		h := func(c fiber.Ctx) error { return c.SendString("tenant=" + c.Params("tenant") + " id=" + c.Params("id")) }
		if mount {
			sub := fiber.New()
			sub.Get("/x/:id", h)
			sub.Get("/plain", h)
			app.Use("/:tenant", sub)
		} else {
			g := app.Group("/:tenant")
			g.Get("/x/:id", h)
			g.Get("/plain", h)
		}
		return app
	}
	for _, uri := range []string{"/acme/x/7", "/acme/plain"} {
		a := do(build(false), "GET", uri)
		b := do(build(true), "GET", uri)
		if a.Response.StatusCode() != b.Response.StatusCode() || string(a.Response.Body()) != string(b.Response.Body()) {
			t.Fatalf("%s: group %d %q, mount %d %q", uri, a.Response.StatusCode(), a.Response.Body(), b.Response.StatusCode(), b.Response.Body())
		}
	}
}

// F31: the routes of a mounted sub-app were prefixed with the mount placeholder's *normalised* path
// (lower-cased by the app that owns the placeholder), not with the prefix as written.
func TestF31_NestedMountKeepsPrefixAsWritten(t *testing.T) {
	build := func(mounted bool) *fiber.App {
		root := fiber.New(fiber.Config{CaseSensitive: true})
		h := func(c fiber.Ctx) error { return c.SendString("nested") }
		if mounted {
			one, two := fiber.New(), fiber.New()
			two.Get("/nested", h)
			one.Use("/Two", two)
			root.Use("/one", one)
		} else {
			root.Group("/one").Group("/Two").Get("/nested", h)
		}
		return root
	}
	for _, p := range []string{"/one/Two/nested", "/one/two/nested"} {
		a := do(build(true), "GET", p).Response.StatusCode()
		b := do(build(false), "GET", p).Response.StatusCode()
		if a != b {
			t.Errorf("GET %s: mounted %d, grouped %d", p, a, b)
		}
	}
}
