package witness

import (
	"testing"

	"github.com/gofiber/fiber/v3"
)

// F3 (C04): mounting under a parameterised prefix kept the sub-app's own parameter names.
func TestF3_MountParamPrefix(t *testing.T) {
	build := func(mount bool) *fiber.App {
		app := fiber.New()
		h := func(c fiber.Ctx) error { return c.SendString("tenant=" + c.Params("tenant") + " id=" + c.Params("id")) }
		if mount {
			sub := fiber.New()
			sub.Get("/x/:id", h)
			sub.Get("/plain", h)
			app.Use("/:tenant", sub)
		} else {
			g := app.Group("/:tenant")
			g.Get("/x/:id", h)
			g.Get("/plain", h)
		}
		return app
	}
	for _, uri := range []string{"/acme/x/7", "/acme/plain"} {
		a := do(build(false), "GET", uri)
		b := do(build(true), "GET", uri)
		if a.Response.StatusCode() != b.Response.StatusCode() || string(a.Response.Body()) != string(b.Response.Body()) {
			t.Fatalf("%s: group %d %q, mount %d %q", uri, a.Response.StatusCode(), a.Response.Body(), b.Response.StatusCode(), b.Response.Body())
		}
	}
}
