package witness

import (
	"testing"

	"github.com/gofiber/fiber/v3"
	"github.com/gofiber/fiber/v3/middleware/cors"
	"github.com/gofiber/fiber/v3/middleware/csrf"
)

// F25: the position of the wildcard was computed on the configured entry as written and applied to
// the trimmed, normalised one: an entry with a leading blank lost the label boundary.
func TestF25_WildcardEntryWithLeadingBlank(t *testing.T) {
	app := fiber.New()
	app.Use(cors.New(cors.Config{AllowOrigins: []string{" https://*.example.com"}}))
	app.Get("/", func(c fiber.Ctx) error { return nil })
	rc := do(app, "GET", "/", "Origin", "https://.evilexample.com")
	if got := string(rc.Response.Header.Peek("Access-Control-Allow-Origin")); got != "" {
		t.Errorf("cors: Allow-Origin %q for an origin outside *.example.com", got)
	}
	rc = do(app, "GET", "/", "Origin", "https://a.example.com")
	if got := string(rc.Response.Header.Peek("Access-Control-Allow-Origin")); got != "https://a.example.com" {
		t.Errorf("cors: a.example.com not allowed (Allow-Origin %q)", got)
	}
}

func TestF25_CSRFWildcardEntryWithLeadingBlank(t *testing.T) {
	app := fiber.New()
	app.Use(csrf.New(csrf.Config{TrustedOrigins: []string{" https://*.example.com"}}))
	app.Post("/", func(c fiber.Ctx) error { return nil })
	app.Get("/", func(c fiber.Ctx) error { return nil })
	// obtain a token
	rc := do(app, "GET", "/")
	ck := string(rc.Response.Header.PeekCookie("csrf_"))
	tok := ck[len("csrf_="):]
	for i := 0; i < len(tok); i++ {
		if tok[i] == ';' {
			tok = tok[:i]
			break
		}
	}
	rc = do(app, "POST", "/", "Origin", "https://.evilexample.com", "X-Csrf-Token", tok, "Cookie", "csrf_="+tok)
	if rc.Response.StatusCode() == 200 {
		t.Errorf("csrf: an unsafe request from https://.evilexample.com reached the handler")
	}
}
