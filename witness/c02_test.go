package witness

import (
	"testing"

	"github.com/gofiber/fiber/v3"
)

// F1 (C02): a path spelling the pattern text bypassed the constraint.
func TestF1_ConstraintLiteralFallback(t *testing.T) {
	app := fiber.New()
	app.Get("/user/:id<int>", func(c fiber.Ctx) error { return c.SendString("id=" + c.Params("id")) })
	rc := do(app, "GET", "/user/:id<int>")
	if rc.Response.StatusCode() != 404 {
		t.Fatalf("constraint bypassed: status %d body %q", rc.Response.StatusCode(), rc.Response.Body())
	}
	if fiber.RoutePatternMatch("/user/:id<int>", "/user/:id<int>") {
		t.Fatalf("RoutePatternMatch accepts the pattern text although the constraint fails")
	}
	if rc := do(app, "GET", "/user/42"); rc.Response.StatusCode() != 200 {
		t.Fatalf("valid value rejected")
	}
}
