package witness

import (
	"bytes"
	"testing"

	"github.com/gofiber/fiber/v3"
)

// F1 (C02): a path spelling the pattern text bypassed the constraint.
func TestF1_ConstraintLiteralFallback(t *testing.T) {
	app := fiber.New()
	app.Get("/user/:id<int>", func(c fiber.Ctx) error { return c.SendString("id=" + c.Params("id")) })
	rc := do(app, "GET", "/user/:id<int>")
	if rc.Response.StatusCode() != 404 {
		t.Fatalf("constraint bypassed: status %d body %q", rc.Response.StatusCode(), rc.Response.Body())
	}
	if fiber.RoutePatternMatch("/user/:id<int>", "/user/:id<int>") {
		t.Fatalf("RoutePatternMatch accepts the pattern text although the constraint fails")
	}
	if rc := do(app, "GET", "/user/42"); rc.Response.StatusCode() != 200 {
		t.Fatalf("valid value rejected")
	}
}

// F19: a named (non-greedy) parameter never spans a '/': the single-byte delimiter search and the
// fixed-length branch of findParamLen did not look for one.
func TestF19_NamedParameterNeverSpansSlash(t *testing.T) {
	for _, tc := range []struct{ pattern, path string }{
		{"/:a-:b", "/x/y-z"},
		{"/:a.:b", "/x/y.z"},
		{"/:a:b", "//x"},
	} {
		app := fiber.New()
		var got string
		app.Get(tc.pattern, func(c fiber.Ctx) error { got = c.Params("a"); return nil })
		rc := do(app, "GET", tc.path)
		if rc.Response.StatusCode() == 200 && bytes.IndexByte([]byte(got), '/') >= 0 {
			t.Errorf("%s on %s: handler ran with a=%q (spans a slash)", tc.pattern, tc.path, got)
		}
	}
}

type rejectAll struct{ name string }

func (r rejectAll) Name() string                 { return r.name }
func (rejectAll) Execute(string, ...string) bool { return false }

// F20: with the default case-insensitive routing the pattern is lower-cased before it is parsed,
// so a custom constraint registered under a mixed-case name was never found and silently accepted everything.
func TestF20_CustomConstraintWithMixedCaseName(t *testing.T) {
	app := fiber.New()
	app.RegisterCustomConstraint(rejectAll{"isAdmin"})
	ran := false
	app.Get("/u/:id<isAdmin>", func(c fiber.Ctx) error { ran = true; return nil })
	rc := do(app, "GET", "/u/bob")
	if ran || rc.Response.StatusCode() != 404 {
		t.Fatalf("the handler ran (status %d) although the declared constraint rejects every value", rc.Response.StatusCode())
	}
}

// F37: mounting re-parses the sub-app's patterns with the parent's custom constraints only; a constraint
// registered on the sub-app was silently dropped (unknown names mean "no constraint").
func TestF37_SubAppConstraintSurvivesMount(t *testing.T) {
	sub := fiber.New()
	sub.RegisterCustomConstraint(rejectAll{"never"})
	ran := false
	sub.Get("/u/:id<never>", func(c fiber.Ctx) error { ran = true; return nil })
	root := fiber.New()
	root.Use("/sub", sub)
	rc := do(root, "GET", "/sub/u/bob")
	if ran || rc.Response.StatusCode() != 404 {
		t.Fatalf("mounted: handler ran=%v status=%d although the constraint rejects every value", ran, rc.Response.StatusCode())
	}
}

// F38: the star/root shortcuts were decided on the pattern after its escape characters were removed:
// the pattern `/\*` — a literal asterisk — became a catch-all route.
func TestF38_EscapedAsteriskIsALiteral(t *testing.T) {
	app := fiber.New()
	app.Get(`/\*`, func(c fiber.Ctx) error { return c.SendString("literal") })
	if st := do(app, "GET", "/anything/x").Response.StatusCode(); st != 404 {
		t.Errorf(`GET /anything/x on pattern /\*: status %d, want 404`, st)
	}
	if st := do(app, "GET", "/*").Response.StatusCode(); st != 200 {
		t.Errorf(`GET /* on pattern /\*: status %d, want 200`, st)
	}
}
