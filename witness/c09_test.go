package witness

import (
	"testing"

	"github.com/gofiber/fiber/v3"
)

func accepts(t *testing.T, header string, offers ...string) string {
	t.Helper()
	app := fiber.New()
	var got string
	app.Get("/", func(c fiber.Ctx) error { got = c.Accepts(offers...); return nil })
	do(app, "GET", "/", "Accept", header)
	return got
}

// F28: optional whitespace before the comma that ends a media range made the weight unparsable; the
// error was dropped and the range kept q=1 — a range refused with q=0 selected an offer.
func TestF28_WeightFollowedByWhitespace(t *testing.T) {
	if got := accepts(t, "text/html;q=0 , text/plain", "text/html"); got != "" {
		t.Errorf("q=0 followed by a blank: Accepts selected %q", got)
	}
	if got := accepts(t, "text/html;q=0.5 , text/plain", "text/plain", "text/html"); got != "text/plain" {
		t.Errorf("q=0.5 followed by a blank: Accepts preferred %q over text/plain", got)
	}
	if got := accepts(t, "text/html;q=0\t, text/plain", "text/html"); got != "" {
		t.Errorf("q=0 followed by a tab: Accepts selected %q", got)
	}
}

// F29: after a backslash inside a quoted parameter value the escape flag was never cleared: the closing
// quote was not seen and the rest of the header was swallowed into the range.
func TestF29_EscapedQuoteInsideParameterValue(t *testing.T) {
	if got := accepts(t, `text/plain;a="x\"y", application/json`, "application/json"); got != "application/json" {
		t.Errorf(`range after a quoted value with an escaped quote is lost: Accepts returned %q`, got)
	}
}
