package witness

import (
	"testing"

	"github.com/gofiber/fiber/v3"
)

// F2 (C03): RoutePatternMatch did not normalise the path like dispatch does.
func TestF2_RoutePatternMatchNormalisation(t *testing.T) {
	app := fiber.New()
	app.Get("/foo", func(c fiber.Ctx) error { return c.SendString("ok") })
	if rc := do(app, "GET", "/foo/"); rc.Response.StatusCode() != 200 {
		t.Fatalf("precondition: app serves /foo/ for /foo, got %d", rc.Response.StatusCode())
	}
	if !fiber.RoutePatternMatch("/foo/", "/foo") {
		t.Fatalf("RoutePatternMatch(/foo/, /foo) = false although dispatch matches")
	}
	app2 := fiber.New(fiber.Config{UnescapePath: true})
	app2.Get("/a b", func(c fiber.Ctx) error { return c.SendString("ok") })
	if rc := do(app2, "GET", "/a%20b"); rc.Response.StatusCode() != 200 {
		t.Fatalf("precondition: app serves /a%%20b, got %d", rc.Response.StatusCode())
	}
	if !fiber.RoutePatternMatch("/a%20b", "/a b", fiber.Config{UnescapePath: true}) {
		t.Fatalf("RoutePatternMatch ignores UnescapePath")
	}
	if fiber.RoutePatternMatch("/foo/", "/foo", fiber.Config{StrictRouting: true}) {
		t.Fatalf("strict routing must keep the trailing slash significant")
	}
}
