// Witness tests: each test drives the real code with the failing input of one finding of
// DESIGN.md §4. They are NOT part of any registered check (the checks are static); they
// document that a reported construct is a genuine defect (fails before the fix: commit,
// passes after) or, for known findings, still fails today (those are skipped unless
// WITNESS_OPEN=1).
package witness

import (
	"bufio"
	"bytes"
	"os"
	"testing"

	"github.com/gofiber/fiber/v3"
	"github.com/valyala/fasthttp"
)

func do(app *fiber.App, method, uri string, hdr ...string) *fasthttp.RequestCtx {
	var rc fasthttp.RequestCtx
	rc.Request.Header.SetMethod(method)
	rc.Request.SetRequestURI(uri)
	for i := 0; i+1 < len(hdr); i += 2 {
		rc.Request.Header.Set(hdr[i], hdr[i+1])
	}
	app.Handler()(&rc)
	return &rc
}

func openFinding(t *testing.T) {
	t.Helper()
	if os.Getenv("WITNESS_OPEN") == "" {
		t.Skip("known (open) finding: run with WITNESS_OPEN=1 to see it fail")
	}
}

func newRC(method, uri string) *fasthttp.RequestCtx {
	var rc fasthttp.RequestCtx
	rc.Request.Header.SetMethod(method)
	rc.Request.SetRequestURI(uri)
	return &rc
}

func bufReader(b []byte) *bufio.Reader { return bufio.NewReader(bytes.NewReader(b)) }
