package witness

import (
	"net"
	"net/http/httptest"
	"strconv"
	"strings"
	"testing"
	"testing/fstest"
	"time"

	"github.com/gofiber/fiber/v3"
	"github.com/gofiber/fiber/v3/client"
	"github.com/gofiber/fiber/v3/middleware/adaptor"
	"github.com/gofiber/fiber/v3/middleware/cache"
	"github.com/gofiber/fiber/v3/middleware/limiter"
	"github.com/gofiber/fiber/v3/middleware/session"
	"github.com/valyala/fasthttp"
	"github.com/valyala/fasthttp/fasthttputil"
)

// F40 (C10): New appended to the TrustProxyConfig.ranges it was handed; an app built from another
// app's Config() with a different Proxies list kept trusting the first app's ranges.
func TestF40_DerivedConfigDoesNotInheritRanges(t *testing.T) {
	edge := fiber.New(fiber.Config{TrustProxy: true, ProxyHeader: "X-Forwarded-For", TrustProxyConfig: fiber.TrustProxyConfig{Proxies: []string{"10.0.0.0/8"}}})
	cfg := edge.Config()
	cfg.TrustProxyConfig.Proxies = []string{"192.0.2.1"}
	inner := fiber.New(cfg)
	var trusted bool
	var host string
	inner.Get("/", func(c fiber.Ctx) error { trusted, host = c.IsProxyTrusted(), c.Host(); return nil })
	rc := newRC("GET", "/")
	rc.Request.Header.Set("X-Forwarded-Host", "evil.test")
	rc.Request.Header.SetHost("real.test")
	rc.SetRemoteAddr(&net.TCPAddr{IP: net.ParseIP("10.9.9.9"), Port: 1})
	inner.Handler()(rc)
	if trusted || host != "real.test" {
		t.Fatalf("peer 10.9.9.9 with Proxies=[192.0.2.1]: trusted=%v Host()=%q", trusted, host)
	}
}

func timeAfter() <-chan time.Time { return time.After(2 * time.Second) }

// F41 (C14): with an external Storage the manager never answers nil; the invalidator branch then
// treated the zero item as a stored entry and removed heap slot 0 of an empty heap.
func TestF41_InvalidatorOnUncachedKey_ExternalStorage(t *testing.T) {
	st := &barrierStore{m: map[string][]byte{}}
	app := fiber.New()
	app.Use(cache.New(cache.Config{
		Storage:          st,
		MaxBytes:         1 << 20,
		CacheInvalidator: func(c fiber.Ctx) bool { return c.Query("invalidate") == "true" },
	}))
	app.Get("/*", func(c fiber.Ctx) error { return c.SendString("body of " + c.Path()) })
	func() {
		defer func() {
			if p := recover(); p != nil {
				t.Fatalf("first request with ?invalidate=true panics: %v", p)
			}
		}()
		do(app, "GET", "/a?invalidate=true")
	}()
	// the mutex must not be left locked
	done := make(chan struct{})
	go func() { do(app, "GET", "/b"); close(done) }()
	select {
	case <-done:
	case <-timeAfter():
		t.Fatalf("the cache is wedged after the invalidating request")
	}
}

// F42 (C14): request directives are case-insensitive (RFC 9111 §5.2): `No-Store` bypasses the cache too.
func TestF42_RequestNoStoreAnyCase(t *testing.T) {
	app := fiber.New()
	app.Use(cache.New())
	n := 0
	app.Get("/", func(c fiber.Ctx) error { n++; return c.SendString("x") })
	do(app, "GET", "/", "Cache-Control", "No-Store")
	rc := do(app, "GET", "/")
	if h := string(rc.Response.Header.Peek("X-Cache")); h == "hit" {
		t.Fatalf("a response to a `Cache-Control: No-Store` request was stored and served (X-Cache: %s, handler ran %d times)", h, n)
	}
}

// F43 (C01/C07): `GET //` — all trailing slashes are trimmed, the detection path becomes empty, and a
// root-level Use middleware is skipped while `/:id?` still matches.
func TestF43_SlashOnlyPathStillPassesRootMiddleware(t *testing.T) {
	app := fiber.New()
	app.Use(func(c fiber.Ctx) error { return c.SendStatus(401) })
	app.Get("/:id?", func(c fiber.Ctx) error { return c.SendString("secret") })
	for _, p := range []string{"/", "/x", "//", "///"} {
		rc := newRC("GET", "/")
		rc.Request.SetRequestURI(p)
		rc.Request.URI().SetPath(p)
		app.Handler()(rc)
		if rc.Response.StatusCode() != 401 {
			t.Errorf("GET %s: status %d, the root middleware was bypassed (body %q)", p, rc.Response.StatusCode(), rc.Response.Body())
		}
	}
}

// F44 (C07): SendFile compared the configured fs.FS values with ==, which panics for an
// uncomparable dynamic type such as fstest.MapFS.
func TestF44_SendFileWithMapFS(t *testing.T) {
	mfs := fstest.MapFS{"a.txt": {Data: []byte("hello")}}
	app := fiber.New()
	app.Get("/", func(c fiber.Ctx) error { return c.SendFile("a.txt", fiber.SendFile{FS: mfs}) })
	for i := 0; i < 2; i++ {
		func() {
			defer func() {
				if p := recover(); p != nil {
					t.Fatalf("request %d: SendFile with fstest.MapFS panics: %v", i+1, p)
				}
			}()
			rc := do(app, "GET", "/")
			if rc.Response.StatusCode() != 200 || string(rc.Response.Body()) != "hello" {
				t.Fatalf("request %d: %d %q", i+1, rc.Response.StatusCode(), rc.Response.Body())
			}
		}()
	}
}

// F46 (C15): the locals key under which a store remembers the id it generated was shared by all stores:
// a second store of the same request looked up the first store's id instead of its own cookie.
func TestF46_TwoStoresInOneRequest(t *testing.T) {
	a := session.NewStore(session.Config{KeyLookup: "cookie:sid_a"})
	b := session.NewStore(session.Config{KeyLookup: "cookie:sid_b"})
	app := fiber.New()
	var bid string
	app.Get("/set", func(c fiber.Ctx) error {
		s, err := b.Get(c)
		if err != nil {
			return err
		}
		s.Set("k", "v")
		bid = s.ID()
		return s.Save()
	})
	var got any
	app.Get("/get", func(c fiber.Ctx) error {
		sa, err := a.Get(c)
		if err != nil {
			return err
		}
		defer sa.Release()
		sb, err := b.Get(c)
		if err != nil {
			return err
		}
		defer sb.Release()
		got = sb.Get("k")
		return nil
	})
	do(app, "GET", "/set")
	do(app, "GET", "/get", "Cookie", "sid_b="+bid)
	if got != "v" {
		t.Fatalf("store B's session (valid cookie presented) not loaded after store A's Get in the same request: k=%v", got)
	}
}

// C02/C03 report: the pattern is lower-cased together with the constraint data.
func TestR3_RegexConstraintKeepsItsCase(t *testing.T) {
	openFinding(t)
	app := fiber.New()
	app.Get("/u/:id<regex(^[A-Z]+$)>", func(c fiber.Ctx) error { return c.SendString(c.Params("id")) })
	if rc := do(app, "GET", "/u/ABC"); rc.Response.StatusCode() != 200 {
		t.Errorf("/u/ABC against <regex(^[A-Z]+$)>: %d", rc.Response.StatusCode())
	}
	if rc := do(app, "GET", "/u/abc"); rc.Response.StatusCode() != 404 {
		t.Errorf("/u/abc against <regex(^[A-Z]+$)>: %d", rc.Response.StatusCode())
	}
}

// C12 report: ClearCookie() without arguments replaces the flash cookie's expiry (path=/) by a pathless one.
func TestR3_ClearCookieKeepsFlashExpiryPath(t *testing.T) {
	openFinding(t)
	app := fiber.New()
	app.Get("/a/next", func(c fiber.Ctx) error {
		_ = c.Redirect().Messages()
		c.ClearCookie()
		return nil
	})
	rc := do(app, "GET", "/a/next", "Cookie", "fiber_flash=\x91\x84\xa3key\xa1k\xa5value\xa1v\xa5level\x01\xaaisOldInput\xc2")
	found := false
	rc.Response.Header.VisitAllCookie(func(k, v []byte) {
		if string(k) == "fiber_flash" {
			found = true
			if !strings.Contains(strings.ToLower(string(v)), "path=/") {
				t.Errorf("flash cookie expiry without path: %q", v)
			}
		}
	})
	if !found {
		t.Skip("no flash cookie expiry in the response (flash cookie not parsed)")
	}
}

// F45 (C05): the adaptor's pooled fasthttp.RequestCtx kept its user values: c.Locals of one request
// were visible in the next request served through FiberHandlerFunc / FiberApp.
func TestF45_AdaptorLocalsDoNotLeak(t *testing.T) {
	h := adaptor.FiberHandlerFunc(func(c fiber.Ctx) error {
		prev, _ := c.Locals("who").(string)
		if v := c.Query("set"); v != "" {
			c.Locals("who", v)
		}
		return c.SendString("prev=" + prev)
	})
	for i := 0; i < 50; i++ { // the pool may hand out another object: repeat
		rec := httptest.NewRecorder()
		h(rec, httptest.NewRequest("GET", "/?set=alice", nil))
		rec = httptest.NewRecorder()
		h(rec, httptest.NewRequest("GET", "/", nil))
		if got := rec.Body.String(); got != "prev=" {
			t.Fatalf("round %d: second request sees the first request's locals: %q", i, got)
		}
	}
}

// F47 (C08): two mount points that differ in letter case only (CaseSensitive off) fold to the same
// prefix; the strict length comparison kept whichever the map iteration produced first.
func TestF47_CaseDuplicateMountPointsAreDeterministic(t *testing.T) {
	seen := map[string]int{}
	for i := 0; i < 60; i++ {
		mk := func(name string) *fiber.App {
			a := fiber.New(fiber.Config{ErrorHandler: func(c fiber.Ctx, _ error) error { return c.Status(500).SendString(name) }})
			a.Get("/x", func(fiber.Ctx) error { return fiber.ErrTeapot })
			return a
		}
		app := fiber.New()
		app.Use("/API", mk("upper"))
		app.Use("/api", mk("lower"))
		rc := do(app, "GET", "/api/x")
		seen[string(rc.Response.Body())]++
	}
	if len(seen) != 1 {
		t.Fatalf("one mount structure, one path, several error handlers: %v", seen)
	}
}

// F48 (C09): the weight parameter was recognised as `q` only; parameter names are case-insensitive
// (and ABNF literals such as "q=" match either case): `text/html;level=1;Q=0` must not select text/html.
func TestF48_UpperCaseWeightName(t *testing.T) {
	app := fiber.New()
	var got string
	app.Get("/", func(c fiber.Ctx) error { got = c.Accepts("text/html", "text/plain"); return nil })
	do(app, "GET", "/", "Accept", "text/html;Q=0, text/plain;Q=0.5")
	if got != "text/plain" {
		t.Fatalf("Accept: text/html;Q=0, text/plain;Q=0.5 selects %q, want text/plain", got)
	}
}

// F49 (C18): the URL was split at every '?', only the piece after the first was sent as query.
func TestF49_QueryWithSecondQuestionMark(t *testing.T) {
	app := fiber.New()
	app.Get("/p", func(c fiber.Ctx) error { return c.SendString(string(c.Request().URI().QueryString())) })
	ln, err := net.Listen("tcp", "127.0.0.1:0")
	if err != nil {
		t.Skip("no loopback listener")
	}
	go func() { _ = app.Listener(ln, fiber.ListenConfig{DisableStartupMessage: true}) }()
	defer func() { _ = app.Shutdown() }()
	resp, err := client.New().Get("http://" + ln.Addr().String() + "/p?a=b?c&d=e")
	if err != nil {
		t.Fatal(err)
	}
	defer resp.Close()
	if got := string(resp.Body()); !strings.Contains(got, "d=e") {
		t.Fatalf("query arrived as %q, the part after the second '?' is lost", got)
	}
}

// F50 (C18): request-level and client-level path parameters were substituted in two passes, each ordered
// longest-first on its own: a request-level :id pre-empted a client-level :idx.
func TestF50_PathParamsOfBothLevelsInOneOrderedPass(t *testing.T) {
	app := fiber.New()
	app.Get("/*", func(c fiber.Ctx) error { return c.SendString(c.Path()) })
	ln, err := net.Listen("tcp", "127.0.0.1:0")
	if err != nil {
		t.Skip("no loopback listener")
	}
	go func() { _ = app.Listener(ln, fiber.ListenConfig{DisableStartupMessage: true}) }()
	defer func() { _ = app.Shutdown() }()
	cl := client.New().SetPathParam("idx", "2")
	resp, err := cl.R().SetPathParam("id", "1").Get("http://" + ln.Addr().String() + "/u/:idx/:id")
	if err != nil {
		t.Fatal(err)
	}
	defer resp.Close()
	if got := string(resp.Body()); got != "/u/2/1" {
		t.Fatalf("client {idx:2} + request {id:1} on /u/:idx/:id arrives as %q, want /u/2/1", got)
	}
}

// F51 (C07): serverErrorHandler searched the error text for "timeout"; fasthttp quotes the request bytes in
// its parse errors, so a malformed request that merely contains the word chose its own status (408).
func TestF51_MalformedRequestMentioningTimeoutIs400(t *testing.T) {
	app := fiber.New()
	app.Get("/*", func(c fiber.Ctx) error { return c.SendString("ok") })
	for _, target := range []string{"/x", "/timeout"} {
		pc := fasthttputil.NewPipeConns()
		go func() { _ = app.Server().ServeConn(pc.Conn2()) }()
		conn := pc.Conn1()
		_, _ = conn.Write([]byte("GET " + target + " HTTP/1.1\r\nHost: a\r\nContent-Length: abc\r\n\r\n"))
		buf := make([]byte, 256)
		_ = conn.SetReadDeadline(time.Now().Add(2 * time.Second))
		n, _ := conn.Read(buf)
		_ = conn.Close()
		if !strings.HasPrefix(string(buf[:n]), "HTTP/1.1 400") {
			t.Errorf("malformed request for %s: %q, want 400", target, strings.SplitN(string(buf[:n]), "\r\n", 2)[0])
		}
	}
}

// F52 (C04): a sub-app mounted with a list of prefixes was mounted on the first one only.
func TestF52_MountOnEveryListedPrefix(t *testing.T) {
	mk := func() *fiber.App {
		sub := fiber.New()
		sub.Get("/x", func(c fiber.Ctx) error { return c.SendString("sub") })
		return sub
	}
	mounted := fiber.New()
	mounted.Use([]string{"/p", "/q"}, mk())
	grouped := fiber.New()
	for _, p := range []string{"/p", "/q"} {
		grouped.Group(p).Get("/x", func(c fiber.Ctx) error { return c.SendString("sub") })
	}
	viaGroup := fiber.New()
	viaGroup.Group("/g").Use([]string{"/p", "/q"}, mk())
	for _, path := range []string{"/p/x", "/q/x"} {
		a, b := do(mounted, "GET", path).Response.StatusCode(), do(grouped, "GET", path).Response.StatusCode()
		if a != b {
			t.Errorf("GET %s: mounted with a prefix list %d, registered under groups %d", path, a, b)
		}
		if c := do(viaGroup, "GET", "/g"+path).Response.StatusCode(); c != 200 {
			t.Errorf("GET /g%s: mounted through a group with a prefix list %d", path, c)
		}
	}
}

// F53 (C14): only the first Cache-Control field line of the request was looked at.
func TestF53_CacheControlOnASecondFieldLine(t *testing.T) {
	app := fiber.New()
	app.Use(cache.New())
	n := 0
	app.Get("/", func(c fiber.Ctx) error { n++; return c.SendString(strconv.Itoa(n)) })
	do(app, "GET", "/")
	rc := newRC("GET", "/")
	rc.Request.Header.Add("Cache-Control", "max-age=0")
	rc.Request.Header.Add("Cache-Control", "no-cache")
	app.Handler()(rc)
	if string(rc.Response.Header.Peek("X-Cache")) == "hit" {
		t.Fatalf("a request with `Cache-Control: no-cache` on a second field line was served from the cache (body %q)", rc.Response.Body())
	}
}

// F54 (C13): the limiter kept the key string it was given; with ProxyHeader set, c.IP() is a view of the
// request header, the memory store keeps it as a map key and the next request on the context rewrites it.
func TestF54_LimiterKeyIsACopy(t *testing.T) {
	app := fiber.New(fiber.Config{ProxyHeader: "X-Forwarded-For"})
	app.Use(limiter.New(limiter.Config{Max: 2, Expiration: time.Minute}))
	app.Get("/", func(c fiber.Ctx) error { return c.SendString("ok") })
	h := app.Handler()
	rc := &fasthttp.RequestCtx{}
	send := func(xff string) int {
		rc.Request.Reset()
		rc.Response.Reset()
		rc.Request.Header.SetMethod("GET")
		rc.Request.SetRequestURI("/")
		rc.Request.Header.Set("X-Forwarded-For", xff)
		h(rc)
		return rc.Response.StatusCode()
	}
	for i, want := range []int{200, 200, 429} {
		if got := send("10.0.0.1"); got != want {
			t.Fatalf("10.0.0.1 request %d: %d, want %d", i+1, got, want)
		}
	}
	if got := send("10.0.0.2"); got != 200 {
		t.Fatalf("first request of 10.0.0.2 on the same connection: %d, want 200 (it was charged to the other key's entry)", got)
	}
}

// F55 (C08): a mount prefix written without its leading slash is routed as "/api" but was recorded as "api".
func TestF55_MountPrefixWithoutLeadingSlash(t *testing.T) {
	sub := fiber.New(fiber.Config{ErrorHandler: func(c fiber.Ctx, _ error) error { return c.Status(500).SendString("sub") }})
	sub.Get("/x", func(fiber.Ctx) error { return fiber.ErrTeapot })
	app := fiber.New(fiber.Config{ErrorHandler: func(c fiber.Ctx, _ error) error { return c.Status(500).SendString("root") }})
	app.Use("api", sub)
	if got := string(do(app, "GET", "/api/x").Response.Body()); got != "sub" {
		t.Fatalf("error raised in the sub-app mounted with Use(\"api\", sub) was handled by %q", got)
	}
}

// F56 (C18): path parameters were substituted one after the other; a value containing ":name" of a
// later parameter was substituted again.
func TestF56_PathParamValuesAreNotSubstitutedAgain(t *testing.T) {
	app := fiber.New()
	app.Get("/*", func(c fiber.Ctx) error { return c.SendString(c.Path()) })
	ln, err := net.Listen("tcp", "127.0.0.1:0")
	if err != nil {
		t.Skip("no loopback listener")
	}
	go func() { _ = app.Listener(ln, fiber.ListenConfig{DisableStartupMessage: true}) }()
	defer func() { _ = app.Shutdown() }()
	resp, err := client.New().R().SetPathParam("name", ":id").SetPathParam("id", "7").Get("http://" + ln.Addr().String() + "/u/:name")
	if err != nil {
		t.Fatal(err)
	}
	defer resp.Close()
	if got := string(resp.Body()); got != "/u/:id" {
		t.Fatalf("{name: \":id\", id: \"7\"} on /u/:name arrives as %q, want /u/:id", got)
	}
}

// F57 (C09): a type wildcard was compared as a bare prefix of the type, without the separator:
// the offer text/* was selected for the range textual/html.
func TestF57_TypeWildcardNeedsTheWholeType(t *testing.T) {
	app := fiber.New()
	var got string
	app.Get("/", func(c fiber.Ctx) error { got = c.Accepts("text/*", "application/json"); return nil })
	do(app, "GET", "/", "Accept", "textual/html, application/json;q=0.1")
	if got != "application/json" {
		t.Fatalf("Accept: textual/html, application/json;q=0.1 with offers text/*, application/json selects %q", got)
	}
}

// F58 (C13): the limiter classified a request as failed or successful by the response status alone; a handler that
// fails the idiomatic way — by returning an error — still has status 200 at that point, so with
// SkipSuccessfulRequests (count failures only, e.g. on a login route) failures were refunded and never limited,
// and with SkipFailedRequests they were charged.
func TestF58_LimiterClassifiesReturnedErrors(t *testing.T) {
	for _, alg := range []limiter.Handler{limiter.FixedWindow{}, limiter.SlidingWindow{}} {
		app := fiber.New()
		app.Use(limiter.New(limiter.Config{Max: 2, Expiration: time.Minute, SkipSuccessfulRequests: true, LimiterMiddleware: alg}))
		app.Post("/login", func(fiber.Ctx) error { return fiber.ErrUnauthorized })
		for i, want := range []int{401, 401, 429} {
			resp, err := app.Test(httptest.NewRequest("POST", "/login", nil))
			if err != nil {
				t.Fatal(err)
			}
			if resp.StatusCode != want {
				t.Fatalf("%T, SkipSuccessfulRequests: failed attempt %d answered %d, want %d (failures signalled by a returned error are not counted)", alg, i+1, resp.StatusCode, want)
			}
		}
		app = fiber.New()
		app.Use(limiter.New(limiter.Config{Max: 1, Expiration: time.Minute, SkipFailedRequests: true, LimiterMiddleware: alg}))
		app.Get("/", func(c fiber.Ctx) error {
			if c.Query("fail") != "" {
				return fiber.ErrBadRequest
			}
			return c.SendString("ok")
		})
		for i, tc := range []struct {
			url  string
			want int
		}{{"/?fail=1", 400}, {"/?fail=1", 400}, {"/", 200}, {"/", 429}} {
			resp, err := app.Test(httptest.NewRequest("GET", tc.url, nil))
			if err != nil {
				t.Fatal(err)
			}
			if resp.StatusCode != tc.want {
				t.Fatalf("%T, SkipFailedRequests: request %d (%s) answered %d, want %d (a request that failed by returning an error was charged)", alg, i+1, tc.url, resp.StatusCode, tc.want)
			}
		}
	}
}

// F59 (C01/C04): a sub-app's root-level Use lost its "matches everything" flag when the sub-app was mounted
// (addPrefixToRoute cleared Route.root whatever the resulting pattern): mounted at "/", the middleware was
// skipped for a path of slashes only, which the same middleware registered directly (or through Group("/")) sees.
func TestF59_MountedRootMiddlewareSeesSlashOnlyPaths(t *testing.T) {
	build := map[string]func(mw fiber.Handler) *fiber.App{
		"direct": func(mw fiber.Handler) *fiber.App { app := fiber.New(); app.Use(mw); return app },
		"group":  func(mw fiber.Handler) *fiber.App { app := fiber.New(); app.Group("/").Use(mw); return app },
		"mount": func(mw fiber.Handler) *fiber.App {
			app, sub := fiber.New(), fiber.New()
			sub.Use(mw)
			app.Use("/", sub)
			return app
		},
	}
	for name, mk := range build {
		app := mk(func(c fiber.Ctx) error { return c.SendStatus(401) })
		app.Get("/:id?", func(c fiber.Ctx) error { return c.SendString("secret") })
		for _, p := range []string{"/", "/x", "//", "///"} {
			rc := newRC("GET", "/")
			rc.Request.SetRequestURI(p)
			rc.Request.URI().SetPath(p)
			app.Handler()(rc)
			if rc.Response.StatusCode() != 401 {
				t.Errorf("%s: GET %s: status %d, the root middleware was bypassed (body %q)", name, p, rc.Response.StatusCode(), rc.Response.Body())
			}
		}
	}
}

type f60Ctx struct {
	fiber.DefaultCtx
}

// F60 (C07): a custom context built the documented way (docs/api/app.md: `DefaultCtx: *fiber.NewDefaultCtx(app)`)
// is a copy of the context NewDefaultCtx built; the Req()/Res() views kept pointing at the discarded original,
// whose fasthttp context is nil — c.Req().Get(…) in a handler was a nil dereference that takes the server down.
func TestF60_CustomContextReqRes(t *testing.T) {
	app := fiber.New()
	app.NewCtxFunc(func(app *fiber.App) fiber.CustomCtx {
		return &f60Ctx{DefaultCtx: *fiber.NewDefaultCtx(app)}
	})
	app.Get("/", func(c fiber.Ctx) error {
		c.Res().Set("X-Seen", c.Req().Get("X-A"))
		return c.SendString(c.Req().Get("X-A"))
	})
	defer func() {
		if p := recover(); p != nil {
			t.Fatalf("c.Req()/c.Res() on a custom context panics: %v", p)
		}
	}()
	for i := 0; i < 2; i++ {
		rc := newRC("GET", "/")
		rc.Request.Header.Set("X-A", "hello")
		app.Handler()(rc)
		if got := string(rc.Response.Body()); rc.Response.StatusCode() != 200 || got != "hello" || string(rc.Response.Header.Peek("X-Seen")) != "hello" {
			t.Fatalf("request %d: %d %q X-Seen=%q", i+1, rc.Response.StatusCode(), got, rc.Response.Header.Peek("X-Seen"))
		}
	}
}

// F61 (C10): Hostname() cut the Host header at its last colon; for an IPv6 literal without a port
// (`Host: [2001:db8::1]`) the cut lands inside the address.
func TestF61_HostnameOfBracketedIPv6(t *testing.T) {
	app := fiber.New()
	app.Get("/", func(c fiber.Ctx) error { return c.SendString(c.Hostname()) })
	for host, want := range map[string]string{
		"example.com":        "example.com",
		"example.com:8080":   "example.com",
		"[2001:db8::1]":      "[2001:db8::1]",
		"[2001:db8::1]:8080": "[2001:db8::1]",
		"[::1]":              "[::1]",
	} {
		rc := newRC("GET", "/")
		rc.Request.Header.SetHost(host)
		app.Handler()(rc)
		if got := string(rc.Response.Body()); got != want {
			t.Errorf("Host: %s → Hostname() %q, want %q", host, got, want)
		}
	}
}

// F62 (C18): a User-Agent or Referer configured as a header (SetHeader / AddHeader, on the request or on the client)
// did not arrive: parserRequestHeader wrote the default user agent and the (empty) client referer over the
// merged headers unconditionally.
func TestF62_UserAgentAndRefererConfiguredAsHeadersArrive(t *testing.T) {
	app := fiber.New()
	app.Get("/", func(c fiber.Ctx) error {
		return c.SendString(c.Get("User-Agent") + "|" + c.Get("Referer"))
	})
	ln, err := net.Listen("tcp", "127.0.0.1:0")
	if err != nil {
		t.Skip("no loopback listener")
	}
	go func() { _ = app.Listener(ln, fiber.ListenConfig{DisableStartupMessage: true}) }()
	defer func() { _ = app.Shutdown() }()
	url := "http://" + ln.Addr().String() + "/"
	get := func(r *client.Request) string {
		resp, err := r.Get(url)
		if err != nil {
			t.Fatal(err)
		}
		defer resp.Close()
		return string(resp.Body())
	}
	if got := get(client.New().R().SetHeader("User-Agent", "custom/1").SetHeader("Referer", "http://r.example/")); got != "custom/1|http://r.example/" {
		t.Errorf("request-level headers: server saw %q, want \"custom/1|http://r.example/\"", got)
	}
	if got := get(client.New().SetHeader("User-Agent", "fromclient/1").SetHeader("Referer", "http://c.example/").R()); got != "fromclient/1|http://c.example/" {
		t.Errorf("client-level headers: server saw %q, want \"fromclient/1|http://c.example/\"", got)
	}
	// the dedicated setters keep their precedence, and the default user agent is still sent when nothing is configured
	if got := get(client.New().R().SetHeader("User-Agent", "custom/1").SetUserAgent("explicit/2").SetReferer("http://x.example/")); got != "explicit/2|http://x.example/" {
		t.Errorf("SetUserAgent/SetReferer: server saw %q", got)
	}
	if got := get(client.New().R()); got != "fiber|" {
		t.Errorf("nothing configured: server saw %q, want \"fiber|\"", got)
	}
}

// F63 (C18): when a response hook fails, core.execute called resp.Close(), which also resets and pools the caller's
// Request although Send returned (nil, err) and the caller still holds it: a retry with the same request sends the
// defaults instead of what was configured.
func TestF63_FailedResponseHookLeavesTheRequestConfigured(t *testing.T) {
	app := fiber.New()
	app.Get("/", func(c fiber.Ctx) error { return c.SendString(c.Get("X-Tenant") + "|" + c.Query("q")) })
	ln, err := net.Listen("tcp", "127.0.0.1:0")
	if err != nil {
		t.Skip("no loopback listener")
	}
	go func() { _ = app.Listener(ln, fiber.ListenConfig{DisableStartupMessage: true}) }()
	defer func() { _ = app.Shutdown() }()
	url := "http://" + ln.Addr().String() + "/"
	cl := client.New()
	fail := true
	cl.AddResponseHook(func(_ *client.Client, _ *client.Response, _ *client.Request) error {
		if fail {
			return fiber.ErrTeapot
		}
		return nil
	})
	req := cl.R().SetHeader("X-Tenant", "acme").SetParam("q", "1")
	if _, err := req.Get(url); err == nil {
		t.Fatal("the failing hook must fail the request")
	}
	if got := req.Header("X-Tenant"); len(got) != 1 || got[0] != "acme" {
		t.Errorf("after the failed Send the request's header X-Tenant is %v, want [acme]", got)
	}
	if req.Client() != cl {
		t.Errorf("after the failed Send the request no longer belongs to its client")
	}
	fail = false
	resp, err := req.Get(url)
	if err != nil {
		t.Fatal(err)
	}
	defer resp.Close()
	if got := string(resp.Body()); got != "acme|1" {
		t.Errorf("retry with the same request: server saw %q, want \"acme|1\"", got)
	}
}

// F64 (C11): a negative index in a bracketed key of a slice-of-struct field makes gofiber/schema index a reflect slice
// out of range; nothing between the binder and fasthttp recovers, so one request takes the process down.
func TestF64_NegativeSliceIndexIsAnErrorNotAPanic(t *testing.T) {
	type post struct {
		Title string `query:"title" form:"title"`
	}
	type in struct {
		Posts []post `query:"posts" form:"posts"`
	}
	for _, q := range []string{"posts[-1][title]=x", "posts[-2][title]=x", "posts.-1.title=x"} {
		app := fiber.New()
		var bindErr error
		panicked := false
		app.Get("/", func(c fiber.Ctx) error {
			defer func() {
				if r := recover(); r != nil {
					panicked = true
				}
			}()
			var v in
			bindErr = c.Bind().Query(&v)
			return nil
		})
		rc := newRC("GET", "/?"+q)
		app.Handler()(rc)
		if panicked {
			t.Errorf("query %q: the binder panicked", q)
		} else if bindErr == nil {
			t.Errorf("query %q: no error reported", q)
		}
	}
}

// F65 (C18): Cookie.VisitAll walks a Go map, so the order of the cookies in the Cookie header line changes from one
// request to the next although the configuration is the same: the request is not a deterministic function of it.
func TestF65_CookieHeaderOrderIsDeterministic(t *testing.T) {
	app := fiber.New()
	app.Get("/", func(c fiber.Ctx) error { return c.SendString(c.Get("Cookie")) })
	ln, err := net.Listen("tcp", "127.0.0.1:0")
	if err != nil {
		t.Skip("no loopback listener")
	}
	go func() { _ = app.Listener(ln, fiber.ListenConfig{DisableStartupMessage: true}) }()
	defer func() { _ = app.Shutdown() }()
	url := "http://" + ln.Addr().String() + "/"
	seen := map[string]bool{}
	for i := 0; i < 24; i++ {
		req := client.New().R()
		for _, k := range []string{"a", "b", "c", "d", "e", "f", "g", "h"} {
			req.SetCookie(k, "1")
		}
		resp, err := req.Get(url)
		if err != nil {
			t.Fatal(err)
		}
		seen[string(resp.Body())] = true
		resp.Close()
	}
	if len(seen) != 1 {
		t.Errorf("the same eight cookies produced %d different Cookie header lines in 24 requests", len(seen))
	}
}
