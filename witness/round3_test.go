package witness

import (
	"net"
	"net/http/httptest"
	"strings"
	"testing"
	"testing/fstest"
	"time"

	"github.com/gofiber/fiber/v3"
	"github.com/gofiber/fiber/v3/middleware/adaptor"
	"github.com/gofiber/fiber/v3/middleware/cache"
	"github.com/gofiber/fiber/v3/middleware/session"
)

// F40 (C10): New appended to the TrustProxyConfig.ranges it was handed; an app built from another
// app's Config() with a different Proxies list kept trusting the first app's ranges.
func TestF40_DerivedConfigDoesNotInheritRanges(t *testing.T) {
	edge := fiber.New(fiber.Config{TrustProxy: true, ProxyHeader: "X-Forwarded-For", TrustProxyConfig: fiber.TrustProxyConfig{Proxies: []string{"10.0.0.0/8"}}})
	cfg := edge.Config()
	cfg.TrustProxyConfig.Proxies = []string{"192.0.2.1"}
	inner := fiber.New(cfg)
	var trusted bool
	var host string
	inner.Get("/", func(c fiber.Ctx) error { trusted, host = c.IsProxyTrusted(), c.Host(); return nil })
	rc := newRC("GET", "/")
	rc.Request.Header.Set("X-Forwarded-Host", "evil.test")
	rc.Request.Header.SetHost("real.test")
	rc.SetRemoteAddr(&net.TCPAddr{IP: net.ParseIP("10.9.9.9"), Port: 1})
	inner.Handler()(rc)
	if trusted || host != "real.test" {
		t.Fatalf("peer 10.9.9.9 with Proxies=[192.0.2.1]: trusted=%v Host()=%q", trusted, host)
	}
}

func timeAfter() <-chan time.Time { return time.After(2 * time.Second) }

// F41 (C14): with an external Storage the manager never answers nil; the invalidator branch then
// treated the zero item as a stored entry and removed heap slot 0 of an empty heap.
func TestF41_InvalidatorOnUncachedKey_ExternalStorage(t *testing.T) {
	st := &barrierStore{m: map[string][]byte{}}
	app := fiber.New()
	app.Use(cache.New(cache.Config{
		Storage:          st,
		MaxBytes:         1 << 20,
		CacheInvalidator: func(c fiber.Ctx) bool { return c.Query("invalidate") == "true" },
	}))
	app.Get("/*", func(c fiber.Ctx) error { return c.SendString("body of " + c.Path()) })
	func() {
		defer func() {
			if p := recover(); p != nil {
				t.Fatalf("first request with ?invalidate=true panics: %v", p)
			}
		}()
		do(app, "GET", "/a?invalidate=true")
	}()
	// the mutex must not be left locked
	done := make(chan struct{})
	go func() { do(app, "GET", "/b"); close(done) }()
	select {
	case <-done:
	case <-timeAfter():
		t.Fatalf("the cache is wedged after the invalidating request")
	}
}

// F42 (C14): request directives are case-insensitive (RFC 9111 §5.2): `No-Store` bypasses the cache too.
func TestF42_RequestNoStoreAnyCase(t *testing.T) {
	app := fiber.New()
	app.Use(cache.New())
	n := 0
	app.Get("/", func(c fiber.Ctx) error { n++; return c.SendString("x") })
	do(app, "GET", "/", "Cache-Control", "No-Store")
	rc := do(app, "GET", "/")
	if h := string(rc.Response.Header.Peek("X-Cache")); h == "hit" {
		t.Fatalf("a response to a `Cache-Control: No-Store` request was stored and served (X-Cache: %s, handler ran %d times)", h, n)
	}
}

// F43 (C01/C07): `GET //` — all trailing slashes are trimmed, the detection path becomes empty, and a
// root-level Use middleware is skipped while `/:id?` still matches.
func TestF43_SlashOnlyPathStillPassesRootMiddleware(t *testing.T) {
	app := fiber.New()
	app.Use(func(c fiber.Ctx) error { return c.SendStatus(401) })
	app.Get("/:id?", func(c fiber.Ctx) error { return c.SendString("secret") })
	for _, p := range []string{"/", "/x", "//", "///"} {
		rc := newRC("GET", "/")
		rc.Request.SetRequestURI(p)
		rc.Request.URI().SetPath(p)
		app.Handler()(rc)
		if rc.Response.StatusCode() != 401 {
			t.Errorf("GET %s: status %d, the root middleware was bypassed (body %q)", p, rc.Response.StatusCode(), rc.Response.Body())
		}
	}
}

// F44 (C07): SendFile compared the configured fs.FS values with ==, which panics for an
// uncomparable dynamic type such as fstest.MapFS.
func TestF44_SendFileWithMapFS(t *testing.T) {
	mfs := fstest.MapFS{"a.txt": {Data: []byte("hello")}}
	app := fiber.New()
	app.Get("/", func(c fiber.Ctx) error { return c.SendFile("a.txt", fiber.SendFile{FS: mfs}) })
	for i := 0; i < 2; i++ {
		func() {
			defer func() {
				if p := recover(); p != nil {
					t.Fatalf("request %d: SendFile with fstest.MapFS panics: %v", i+1, p)
				}
			}()
			rc := do(app, "GET", "/")
			if rc.Response.StatusCode() != 200 || string(rc.Response.Body()) != "hello" {
				t.Fatalf("request %d: %d %q", i+1, rc.Response.StatusCode(), rc.Response.Body())
			}
		}()
	}
}

// F46 (C15): the locals key under which a store remembers the id it generated was shared by all stores:
// a second store of the same request looked up the first store's id instead of its own cookie.
func TestF46_TwoStoresInOneRequest(t *testing.T) {
	a := session.NewStore(session.Config{KeyLookup: "cookie:sid_a"})
	b := session.NewStore(session.Config{KeyLookup: "cookie:sid_b"})
	app := fiber.New()
	var bid string
	app.Get("/set", func(c fiber.Ctx) error {
		s, err := b.Get(c)
		if err != nil {
			return err
		}
		s.Set("k", "v")
		bid = s.ID()
		return s.Save()
	})
	var got any
	app.Get("/get", func(c fiber.Ctx) error {
		sa, err := a.Get(c)
		if err != nil {
			return err
		}
		defer sa.Release()
		sb, err := b.Get(c)
		if err != nil {
			return err
		}
		defer sb.Release()
		got = sb.Get("k")
		return nil
	})
	do(app, "GET", "/set")
	do(app, "GET", "/get", "Cookie", "sid_b="+bid)
	if got != "v" {
		t.Fatalf("store B's session (valid cookie presented) not loaded after store A's Get in the same request: k=%v", got)
	}
}

// C02/C03 report: the pattern is lower-cased together with the constraint data.
func TestR3_RegexConstraintKeepsItsCase(t *testing.T) {
	openFinding(t)
	app := fiber.New()
	app.Get("/u/:id<regex(^[A-Z]+$)>", func(c fiber.Ctx) error { return c.SendString(c.Params("id")) })
	if rc := do(app, "GET", "/u/ABC"); rc.Response.StatusCode() != 200 {
		t.Errorf("/u/ABC against <regex(^[A-Z]+$)>: %d", rc.Response.StatusCode())
	}
	if rc := do(app, "GET", "/u/abc"); rc.Response.StatusCode() != 404 {
		t.Errorf("/u/abc against <regex(^[A-Z]+$)>: %d", rc.Response.StatusCode())
	}
}

// C12 report: ClearCookie() without arguments replaces the flash cookie's expiry (path=/) by a pathless one.
func TestR3_ClearCookieKeepsFlashExpiryPath(t *testing.T) {
	openFinding(t)
	app := fiber.New()
	app.Get("/a/next", func(c fiber.Ctx) error {
		_ = c.Redirect().Messages()
		c.ClearCookie()
		return nil
	})
	rc := do(app, "GET", "/a/next", "Cookie", "fiber_flash=\x91\x84\xa3key\xa1k\xa5value\xa1v\xa5level\x01\xaaisOldInput\xc2")
	found := false
	rc.Response.Header.VisitAllCookie(func(k, v []byte) {
		if string(k) == "fiber_flash" {
			found = true
			if !strings.Contains(strings.ToLower(string(v)), "path=/") {
				t.Errorf("flash cookie expiry without path: %q", v)
			}
		}
	})
	if !found {
		t.Skip("no flash cookie expiry in the response (flash cookie not parsed)")
	}
}

// F45 (C05): the adaptor's pooled fasthttp.RequestCtx kept its user values: c.Locals of one request
// were visible in the next request served through FiberHandlerFunc / FiberApp.
func TestF45_AdaptorLocalsDoNotLeak(t *testing.T) {
	h := adaptor.FiberHandlerFunc(func(c fiber.Ctx) error {
		prev, _ := c.Locals("who").(string)
		if v := c.Query("set"); v != "" {
			c.Locals("who", v)
		}
		return c.SendString("prev=" + prev)
	})
	for i := 0; i < 50; i++ { // the pool may hand out another object: repeat
		rec := httptest.NewRecorder()
		h(rec, httptest.NewRequest("GET", "/?set=alice", nil))
		rec = httptest.NewRecorder()
		h(rec, httptest.NewRequest("GET", "/", nil))
		if got := rec.Body.String(); got != "prev=" {
			t.Fatalf("round %d: second request sees the first request's locals: %q", i, got)
		}
	}
}
