package witness

import (
	"bytes"
	"strings"
	"testing"

	"github.com/gofiber/fiber/v3"
)

func headerLines(t *testing.T, app *fiber.App, uri string) [][]byte {
	t.Helper()
	rc := do(app, "GET", uri)
	raw := rc.Response.Header.Header()
	return bytes.Split(raw, []byte("\r\n"))
}

// F9 (C07): CR/LF in values passed to response helpers added header lines.
func TestF9_HeaderInjection(t *testing.T) {
	cases := map[string]fiber.Handler{
		"/redirect": func(c fiber.Ctx) error { return c.Redirect().To("/x\r\nX-Injected: 1") },
		"/location": func(c fiber.Ctx) error { c.Location("/x\r\nX-Injected: 1"); return nil },
		"/type":     func(c fiber.Ctx) error { c.Type("json", "utf-8\r\nX-Injected: 1"); return nil },
		"/cookie":   func(c fiber.Ctx) error { c.Cookie(&fiber.Cookie{Name: "a", Value: "v\r\nX-Injected: 1"}); return nil },
		"/links":    func(c fiber.Ctx) error { c.Links("http://a\r\nX-Injected: 1", "next"); return nil },
		"/json":     func(c fiber.Ctx) error { return c.JSON(1, "application/json\r\nX-Injected: 1") },
		"/format": func(c fiber.Ctx) error {
			return c.Format(fiber.ResFmt{MediaType: "text/plain\r\nX-Injected: 1", Handler: func(c fiber.Ctx) error { return nil }})
		},
	}
	for path, h := range cases {
		app := fiber.New()
		app.Get(path, h)
		for _, ln := range headerLines(t, app, path) {
			if bytes.HasPrefix(ln, []byte("X-Injected")) {
				t.Errorf("%s: handler-supplied value added a header line: %q", path, ln)
			}
		}
	}
}

// F6b (C07): Method() indexed RequestMethods with the -1 sentinel.
func TestF6b_MethodSentinel(t *testing.T) {
	app := fiber.New(fiber.Config{ErrorHandler: func(c fiber.Ctx, err error) error {
		_ = c.Route() // fallback route calls c.Method()
		return c.Status(400).SendString(c.Method())
	}})
	defer func() {
		if r := recover(); r != nil {
			t.Fatalf("panic in the server error path for an unknown method: %v", r)
		}
	}()
	c := app.AcquireCtx(newRC("FOO", "/"))
	defer app.ReleaseCtx(c)
	_ = app.Config().ErrorHandler(c, fiber.ErrBadRequest)
}

// F21: a pattern with more parameters than the context can hold was accepted at registration and
// crashed the server on the first matching request (index out of range in getMatch).
func TestF21_TooManyParametersIsRefusedAtRegistration(t *testing.T) {
	pattern, path := "", ""
	for i := 0; i < 31; i++ {
		pattern += "/:p" + string(rune('a'+i%26)) + string(rune('a'+i/26))
		path += "/v"
	}
	defer func() {
		if r := recover(); r != nil {
			if s, ok := r.(string); ok && len(s) > 0 {
				return // refused with an explanatory panic at registration: fine
			}
			t.Fatalf("a request crashed the server: %v", r)
		}
	}()
	app := fiber.New()
	app.Get(pattern, func(c fiber.Ctx) error { return nil })
	do(app, "GET", path)
}

// F27: ClearCookie handed the cookie name to fasthttp as is; Cookie let fasthttp percent-decode the
// Path after it had been sanitised. Either way a CR/LF reached the response header block.
func TestF27_CookieHelpersDoNotSplitTheHeader(t *testing.T) {
	app := fiber.New()
	app.Get("/clear", func(c fiber.Ctx) error { c.ClearCookie("a\r\nX-Inj: y"); return nil })
	app.Get("/path", func(c fiber.Ctx) error {
		c.Cookie(&fiber.Cookie{Name: "n", Value: "v", Path: "/a%0d%0aX-Inj:%20y"})
		return nil
	})
	app.Get("/path2", func(c fiber.Ctx) error {
		c.Cookie(&fiber.Cookie{Name: "n", Value: "v", Path: "/a%0d%250d%250aX-Inj:%20y"})
		return nil
	})
	for _, u := range []string{"/clear", "/path", "/path2"} {
		rc := do(app, "GET", u)
		raw := rc.Response.Header.String()
		for _, line := range strings.Split(raw, "\r\n") {
			if strings.HasPrefix(line, "X-Inj") {
				t.Errorf("%s: a value handed to a cookie helper added the header line %q", u, line)
			}
		}
	}
}
