#!/usr/bin/env python3
"""Regenerates the table of DESIGN.md §7 from /verif/seeded/*/meta.json."""
import json, os
rows=[]
for n in sorted(os.listdir('/verif/seeded')):
    mp=f'/verif/seeded/{n}/meta.json'
    if not os.path.exists(mp): continue
    rows.append((n,json.load(open(mp))))
lines=['| change | round | what it does | needs, to manifest | verdict | reported as |','|---|---|---|---|---|---|']
st={'own':0,'sib':0,'miss':0}
for n,m in rows:
    rnd=m.get('round',1)
    if m['expect']=='detected':
        cp=m.get('check_property',m['property'])
        if cp!=m['property']: st['sib']+=1
        else: st['own']+=1
        verdict='**detected**'+(' (by '+cp+')' if cp!=m['property'] else '')
        rep='`['+cp+'] …'+m['expect_key']+'` — '+m.get('detected','')
    else:
        st['miss']+=1
        verdict='not detected'; rep='limit: '+m.get('limit','')
    lines.append(f"| {n} | {rnd} | {m.get('change','')} | {m.get('needs','')} | {verdict} | {rep} |")
s=open('/verif/DESIGN.md').read()
a=s.index('| change |', s.index('## 7. Seeded changes'))
b=s.index('### 7.1')
s=s[:a]+'\n'.join(lines)+'\n\n'+s[b:]
open('/verif/DESIGN.md','w').write(s)
print(len(rows),'seeded changes',st)
