#!/usr/bin/env python3
"""Writes /verif/MANIFEST.json from the table below (one entry per claimed property).
Properties without an entry are listed under not_applicable with their reason from NA."""
import json, os

HERE = os.path.dirname(os.path.dirname(os.path.abspath(__file__)))

BASE_NOTE = ("Trusted base: go/types + go/ssa (x/tools v0.29.0) view of /repo's working tree; anchors resolved by type/role, "
             "fail-closed when they do not resolve. Clause-level claim only — see 'Not decided' in DESIGN.md §3 for this property.")

CLAIMED = {
    # id: (technique, level text, level_note, design_ref)
}

NA = {
    # id: reason (only for properties that are not claimed)
}

def load_tables():
    p = os.path.join(HERE, "scripts", "claims.json")
    d = json.load(open(p))
    return d["claimed"], d["not_applicable"]

def main():
    claimed, na = load_tables()
    props = [json.loads(l) for l in open(os.path.join(HERE, "properties.jsonl"))]
    ids = [p["id"] for p in props]
    checks = []
    for pid in ids:
        if pid not in claimed:
            continue
        c = claimed[pid]
        # the rule list of the built checker (from the evidence of the last run) keeps the claim text complete
        rules_txt = ""
        evp = os.path.join(HERE, "evidence", pid + ".json")
        if os.path.exists(evp):
            try:
                rules = json.load(open(evp))["coverage"]["rules"]
                def key(k):
                    import re
                    m = re.match(r"R(\d+)(.*)", k)
                    return (int(m.group(1)), m.group(2))
                rules_txt = " Rules (" + str(len(rules)) + "): " + "; ".join(f"{rid} {rules[rid]['doc']}" for rid in sorted(rules, key=key)) + "."
            except Exception:
                rules_txt = ""
        checks.append({
            "property_id": pid,
            "quick_cmd": f"./check {pid} quick",
            "thorough_cmd": f"./check {pid} thorough",
            "evidence_file": f"/verif/evidence/{pid}.json",
            "replay_cmd_template": f"./check {pid} quick  # re-runs the rules; the obligation recorded in {{path}} names rule, construct and file:line",
            "engine": "fibercheck",
            "level_claimed": {
                "category": "other",
                "text": c["level_text"] + rules_txt,
                "design_ref": c.get("design_ref", "DESIGN.md §3 " + pid),
            },
            "level_note": c["level_note"] + " " + BASE_NOTE,
            "technique": c["technique"] + "; path, lockset and data-dependence queries look into same-package unexported helpers and function literals called in place (callee summaries with result facts)",
        })
    nas = []
    for pid in ids:
        if pid in claimed:
            continue
        nas.append({"property_id": pid, "reason": na.get(pid, "check not built yet in this round (static rules designed in DESIGN.md §3 but not implemented)")})
    m = {
        "version": 1,
        "setup_cmd": "./setup.sh",
        "hooks": {
            "guard": "verif",
            "enable": "none needed: static analysis reads the source; no instrumentation exists and no file in /repo carries the tag",
            "baseline_off_cmd": "cd /repo && go test -mod=mod -json -vet=off -count=1 -timeout 25m ./...",
            "source_commits": [],
            "add_only": True,
        },
        "engines": [{
            "name": "fibercheck",
            "path": "/verif/tool",
            "serves_properties": [c["property_id"] for c in checks],
            "kind_free_text": "repository-specific static analyser over go/packages + go/ssa: CFG reachability with cut edges (must-pass-through), lockset, field coverage, sibling agreement, taint/provenance, table exhaustiveness; no fiber code is executed",
        }],
        "checks": checks,
        "not_applicable": nas,
        "notes": "All checks are static (no test, fuzzer, solver or fiber code is run by a registered command). quick = rules on /repo's working tree (~6 s, dominated by loading + SSA build); thorough = the same rules plus the checker's self-test: breaking and benign source variants applied to a scratch copy of the current tree, one fresh process per variant (prints CHECKER-BROKEN and exits 3 if the checker misclassifies one; never prints VIOLATION for that). Genuine defects found are repaired by 'fix:' commits in /repo or listed in /verif/known_findings.json; witness tests for them live in /verif/witness (documentation, not a check).",
    }
    json.dump(m, open(os.path.join(HERE, "MANIFEST.json"), "w"), indent=1)
    print("wrote MANIFEST.json:", len(checks), "checks,", len(nas), "not applicable")

if __name__ == "__main__":
    main()
