#!/usr/bin/env python3
"""Regenerates DESIGN.md §0.1 (rules as built) from /verif/evidence/*.json (run the checks on the unchanged tree first)."""
import json, glob, re
out=["### 0.1 Rules as built (generated from the evidence of the unchanged tree by scripts/gen_rules_md.py)\n"]
tot_v=tot_s=0
for f in sorted(glob.glob('/verif/evidence/C*.json')):
    e=json.load(open(f)); c=e['coverage']
    out.append(f"**{e['property_id']}** — {c['obligations']} obligations, {c['discharged']} discharged, {c['known_findings_hit']} known-finding hits")
    def key(k):
        m=re.match(r'R(\d+)(.*)',k); return (int(m.group(1)),m.group(2))
    for rid in sorted(c['rules'],key=key):
        r=c['rules'][rid]
        out.append(f"* {rid} ({r['obligations']}): {r['doc']}")
    st=c.get('selftest') or {}
    if st:
        out.append(f"* self-test (thorough): {st.get('variants','?')} variants ({st.get('breaking_detected','?')} breaking detected, {st.get('benign_silent','?')} benign silent), {st.get('seeded_changes','?')} seeded changes ({st.get('seeded_detected','?')} detected, {st.get('seeded_undetected_documented','?')} documented misses)")
    out.append("")
s=open('/verif/DESIGN.md').read()
a=s.index('### 0.1 Rules as built'); b=s.index('## 1. Stance')
# keep the separator line before "## 1."
sep=s.rfind('----', a, b)
tail=s[sep:b] if sep>0 else ''
s=s[:a]+'\n'.join(out)+'\n'+tail+s[b:]
open('/verif/DESIGN.md','w').write(s)
print("rules section regenerated")
