#!/bin/bash
# usage: scripts/seedcheck.sh <Cxx> <dir-with-patch.diff-and-demo_test.go> [scratch]
# Confirms a seeded change in a scratch worktree (never in /repo): builds, runs the touched packages' tests,
# runs the demonstration with and without the change, and runs the property's static check against the scratch tree.
set -u
PROP="$1"; DIR="$2"; SCR="${3:-/tmp/confirm-$PROP}"
export GOFLAGS=-mod=mod GOPROXY=off GOSUMDB=off GOTOOLCHAIN=local
PATCH="$DIR/patch.diff"; DEMO=$(ls "$DIR"/*_test.go | head -1)
if [ ! -d "$SCR" ]; then git -C /repo worktree add -q --detach "$SCR" HEAD || exit 2; fi
git -C "$SCR" checkout -q --detach "$(git -C /repo rev-parse HEAD)" 2>/dev/null
git -C "$SCR" reset -q --hard HEAD && git -C "$SCR" clean -qfd
pkgname=$(grep -m1 '^package ' "$DEMO" | awk '{print $2}')
case "$pkgname" in
  fiber|fiber_test) D=. ;;
  client|client_test) D=client ;;
  binder|binder_test) D=binder ;;
  *) D=middleware/${pkgname%_test} ;;
esac
# a directory named in the demonstration's header comment wins (e.g. internal/memory)
hint=$(head -12 "$DEMO" | grep -oE '(internal|middleware|client|binder)(/[a-z0-9_]+)*' | head -1)
if [ -n "$hint" ] && [ -d "/repo/$hint" ]; then
  hp=$(grep -m1 '^package ' /repo/$hint/*.go | head -1 | awk '{print $2}')
  if [ "$hp" = "${pkgname%_test}" ]; then D=$hint; fi
fi
[ -d "/repo/$D" ] || { for c in internal/$pkgname internal/storage/$pkgname; do [ -d "/repo/${c%_test}" ] && D=${c%_test}; done; }
echo "== $PROP $(basename "$DIR"): demo package $pkgname -> $D"
if ! git -C "$SCR" apply "$PATCH"; then echo "RESULT patch-does-not-apply"; exit 3; fi
TOUCHED=$(git -C "$SCR" diff --name-only | xargs -n1 dirname | sort -u | sed 's|^|./|' | tr '\n' ' ')
(cd "$SCR" && go build ./... ) || { echo "RESULT build-fails"; exit 3; }
echo "-- existing tests of touched packages ($TOUCHED) with the change"
(cd "$SCR" && go test -count=1 -vet=off $TOUCHED 2>&1 | tail -4)
SUITE_RC=${PIPESTATUS[0]}
cp "$DEMO" "$SCR/$D/zz_seed_demo_test.go"
echo "-- demo WITH the change (must fail)"
(cd "$SCR" && go test -count=1 -vet=off -run 'Seed|C[0-9][0-9]|Mut|MutA|MutB' ./$D 2>&1 | grep -E "^(--- FAIL|FAIL|ok|panic)" | head -5)
rm -f "$SCR/$D/zz_seed_demo_test.go"
echo "-- static check on the changed tree"
EV=$(mktemp -d); VERIF_REPO="$SCR" VERIF_OUT="$EV" /verif/check "$PROP" quick 2>&1 | grep -v "WARNING\|KNOWN-FINDING" | cut -c1-400; rm -rf "$EV"; 
git -C "$SCR" checkout -q -- .
cp "$DEMO" "$SCR/$D/zz_seed_demo_test.go"
echo "-- demo WITHOUT the change (must pass)"
(cd "$SCR" && go test -count=1 -vet=off -run 'Seed|C[0-9][0-9]|Mut|MutA|MutB' ./$D 2>&1 | grep -E "^(--- FAIL|FAIL|ok|panic)" | head -5)
rm -f "$SCR/$D/zz_seed_demo_test.go"
git -C "$SCR" reset -q --hard HEAD && git -C "$SCR" clean -qfd
