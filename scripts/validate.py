#!/usr/bin/env python3
import json, jsonschema, glob, sys
jsonschema.validate(json.load(open('/verif/MANIFEST.json')), json.load(open('/root/.vp/MANIFEST.schema.json')))
es=json.load(open('/root/.vp/EVIDENCE.schema.json'))
m=json.load(open('/verif/MANIFEST.json'))
bad=0
for c in m['checks']:
    try:
        jsonschema.validate(json.load(open(c['evidence_file'])), es)
    except Exception as e:
        print('BAD', c['evidence_file'], str(e)[:200]); bad=1
ids={c['property_id'] for c in m['checks']}|{n['property_id'] for n in m.get('not_applicable',[])}
print('manifest ok; checks', len(m['checks']), 'na', len(m.get('not_applicable',[])), 'covered', len(ids))
sys.exit(bad)
