#!/bin/sh
# Runs the repository's baseline suite (guard off — there are no hooks) and compares with /root/.vp/BASELINE.json stable_pass.
# usage: scripts/baseline.sh [repo-dir]
REPO="${1:-/repo}"
export GOFLAGS=-mod=mod GOPROXY=off GOSUMDB=off GOTOOLCHAIN=local
OUT="$(mktemp)"
(cd "$REPO" && go test -mod=mod -json -vet=off -count=1 -timeout 25m ./... > "$OUT" 2>/dev/null)
python3 - "$OUT" <<'PY'
import json,sys
passed=set(); failed=set()
for l in open(sys.argv[1]):
    try: d=json.loads(l)
    except Exception: continue
    if d.get('Test') and d.get('Action') in('pass','fail'):
        (passed if d['Action']=='pass' else failed).add(d['Package']+'::'+d['Test'])
b=json.load(open('/root/.vp/BASELINE.json'))
stable=set(b['stable_pass'])
missing=sorted(stable-passed)
print('passed',len(passed),'failed',len(failed),'stable',len(stable),'stable-not-passed',len(missing))
for m in missing[:40]: print('  MISSING',m)
sys.exit(1 if missing else 0)
PY
RC=$?
rm -f "$OUT"
exit $RC
