#!/bin/bash
# usage: scripts/reanchor.sh <dir-with-patch.diff> — re-anchors a stored patch that no longer applies to /repo HEAD:
# finds the newest /repo commit it applies to, commits it there in a scratch worktree and cherry-picks it onto HEAD.
set -u
D="$1"; W=$(mktemp -d /tmp/reanchor-XXXX); rmdir "$W"
HEADC=$(git -C /repo rev-parse HEAD)
base=""
for c in $(git -C /repo log --format=%H); do
  git -C /repo worktree add -q --detach "$W" "$c" 2>/dev/null || { git -C /repo worktree remove --force "$W" 2>/dev/null; git -C /repo worktree add -q --detach "$W" "$c"; }
  if git -C "$W" apply --check "$D/patch.diff" 2>/dev/null; then base=$c; break; fi
  git -C /repo worktree remove --force "$W"
done
[ -z "$base" ] && { echo "$D: no base commit found"; exit 1; }
git -C "$W" apply "$D/patch.diff" && git -C "$W" add -A && git -C "$W" -c user.email=v@v -c user.name=v commit -qm seeded
pc=$(git -C "$W" rev-parse HEAD)
git -C "$W" checkout -q --detach "$HEADC"
if git -C "$W" -c user.email=v@v -c user.name=v cherry-pick "$pc" >/dev/null 2>&1; then
  [ -f "$D/patch.orig.diff" ] || cp "$D/patch.diff" "$D/patch.orig.diff"
  git -C "$W" diff HEAD~1 HEAD > "$D/patch.diff"
  echo "$D: re-anchored from $(git -C /repo rev-parse --short $base) onto $(git -C /repo rev-parse --short $HEADC)"
  rc=0
else
  echo "$D: CONFLICT when moving from $(git -C /repo rev-parse --short $base) to HEAD"; git -C "$W" cherry-pick --abort 2>/dev/null; rc=2
fi
git -C /repo worktree remove --force "$W"; git -C /repo branch -q -D tmp-reanchor 2>/dev/null
exit $rc
