#!/usr/bin/env python3
"""usage: add_fixed.py <property> <rule|construct key> <commit> <witness> <what failed>"""
import json, sys
prop, key, commit, witness, what = sys.argv[1:6]
p='/verif/known_findings.json'
k=json.load(open(p))
k['findings'].append({"property":prop,"key":key,"status":"fixed","commit":commit,"what":f"fixed: property={prop} {commit} {what}","witness":witness})
json.dump(k,open(p,'w'),indent=1,ensure_ascii=False)
print(len(k['findings']))
