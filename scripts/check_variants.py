#!/usr/bin/env python3
"""Validates that every self-test variant's find text occurs exactly once in /repo."""
import json, glob, sys, os
bad=0; n=0
for p in sorted(glob.glob('/verif/selftest/*.json')):
    for v in json.load(open(p)):
        n+=1
        for f,k in ((v['file'],v['find']),(v.get('file2'),v.get('find2'))):
            if not f: continue
            s=open(os.path.join('/repo',f)).read()
            if s.count(k)!=1:
                print('MISMATCH',v['id'],f,s.count(k)); bad+=1
print(n,'variants,',bad,'mismatches'); sys.exit(1 if bad else 0)
