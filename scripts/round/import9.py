import json, os, shutil, glob, re
props={json.loads(l)['id']:json.loads(l)['title'] for l in open('/verif/properties.jsonl')}
sc=json.load(open('/tmp/seed9/scheck-all.json'))
own_arrival='C02-mutQ C02-mutR C04-mutQ C05-mutQ C05-mutR C06-mutQ C06-mutR C07-mutQ C08-mutQ C08-mutR C09-mutQ C09-mutR C10-mutQ C10-mutR C12-mutQ C12-mutR C13-mutR C14-mutQ C15-mutR C16-mutQ C17-mutR C18-mutQ C19-mutQ C19-mutR C20-mutQ C20-mutR'.split()
sib_arrival={'C01-mutQ':'C04','C03-mutR':'C01','C04-mutR':'C01'}
weak={'C12-mutQ':'at arrival reported fail-closed only (the anchor `With overrides an existing message in place` of C12-R7 no longer resolved: the override is one assignment of a whole element)','C19-mutQ':'at arrival reported only through the vacuity floor of C19-R5 (three split offsets derived from the wildcard position where four are confirmed)','C05-mutQ':'at arrival reported for C05 only through a vacuity floor (C05-R3 / C12-R4: one truncation-reset slice field left); the sibling C12 rules R2 and R6 state the defect'}
dup={'C02-mutQ':'same idea as round-8 C02-mutP and earlier rounds','C04-mutQ':'same edit as round-8 C01-mutO','C15-mutR':'same edit as round-8 C15-mutO','C09-mutR':'same idea as round-8 C09-mutP','C08-mutQ':'same idea as round-8 C08-mutP (the recursion handed the un-joined prefix)','C06-mutR':'same idea as earlier Immutable-copy changes','C20-mutQ':'same idea as round-3 C20 (append onto Config.Except)','C13-mutR':'same idea as an earlier round (sub-second Expiration kept)'}
change=json.load(open('/tmp/seed9/change.json'))
for sid,(chg,needs) in sorted(change.items()):
    p,m=sid.split('-')
    src=f'/tmp/seed9/out/{p}'
    out=f'/verif/seeded/{sid}'; os.makedirs(out,exist_ok=True)
    shutil.copy(f'{src}/{m}.patch.diff',f'{out}/patch.diff')
    demos=sorted(glob.glob(f'{src}/{m}_demo*_test.go'))
    for i,d in enumerate(demos):
        shutil.copy(d,f'{out}/demo_test.go.txt' if i==0 else f'{out}/demo{i+1}_test.go.txt')
    if os.path.exists(f'{src}/{m}.meta.txt'): shutil.copy(f'{src}/{m}.meta.txt',f'{out}/agent_notes.txt')
    rf=f'/tmp/seed9/in/{sid}/result.txt'
    if os.path.exists(rf):
        txt=open(rf,errors='replace').read()
        # the static-check section of the confirmation log was produced by the checker as it was at that moment (some runs hit a half-edited tool); keep the test part only
        txt=re.sub(r'-- static check on the changed tree\n.*?(?=-- demo WITHOUT)', '', txt, flags=re.S)
        open(f'{out}/confirm_log.txt','w').write(txt)
    noise=[]
    lines=[l for l in sc[sid] if not any(n in l for n in noise)]
    lines=sorted(lines,key=lambda l:('vacuous' in l or 'anchor' in l))
    own=[l for l in lines if f'[{p} ' in l]
    meta={"id":sid,"round":9,"property":p,"breaks":p+" — "+props[p],"change":chg,"needs":needs,
          "ran":["scripts/seedcheck.sh (scratch worktree of /repo HEAD 28f28aa: git apply, go build ./..., go test of the touched packages, demonstration with and without the change)","all 20 checks against a scratch copy with the change applied: once with the checker as committed before the round (arrival), once after strengthening"],
          "suite_with_change":"passes (touched packages; the sub-agent also ran ./... — only the four network-dependent middleware/proxy tests fail, as on the unchanged tree)",
          "demo":"fails with the change, passes without (confirm_log.txt)"}
    if not lines:
        meta.update({"expect":"undetected","detected":"missed at arrival and not claimed: the effect hinges on reflection inside the binder (a pointer to the map makes equalFieldType answer true, so EnableSplittingOnParsers splits the values) — no structural rule in reach states that without freezing the call's spelling",
                     "limit":"needs the binder's reflective type test and a Config flag of the application: outside what the C17 rules decide"})
    else:
        use=own[0] if own else lines[0]
        mm=re.search(r'\[(C\d+) (R\w+)\] (.*?): ',use)
        cp,rule,construct=mm.group(1),mm.group(2),mm.group(3)
        key=re.sub(r'#\d+','',construct)
        parts=[x for x in key.split(':') if x]
        ek=parts[-1] if parts else key
        if sid in own_arrival: when='as built before this round'
        elif sid in sib_arrival: when=f'as built before this round — by the sibling property {sib_arrival[sid]}, not by {p}'
        else: when=f'missed at arrival; reported after strengthening ({cp}-{rule})'
        if sid in weak: when=weak[sid]+f'; now reported by {cp}-{rule}'
        meta.update({"expect":"detected","expect_key":ek,"check_property":cp,"detected":when})
        print(sid,cp,rule,ek)
    if sid in dup: meta["duplicate_of_earlier_round"]=dup[sid]
    json.dump(meta,open(f'{out}/meta.json','w'),indent=1,ensure_ascii=False)
