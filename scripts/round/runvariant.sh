#!/bin/bash
# usage: runvariant.sh <variant-id>  — applies one self-test variant on a scratch copy, builds it, runs the property's check
set -u
export GOFLAGS=-mod=mod GOPROXY=off GOSUMDB=off GOTOOLCHAIN=local
ID="$1"; PROP="${ID%%-*}"
W=$(mktemp -d /tmp/var-XXXX)
rsync -a --exclude .git /repo/ "$W/repo/"
python3 - "$ID" "$W/repo" <<'PY'
import json,sys,glob
vid,root=sys.argv[1],sys.argv[2]
for f in glob.glob('/verif/selftest/c*.json'):
    for v in json.load(open(f)):
        if v['id']==vid:
            for fk,fi,rk in (('file','find','replace'),('file2','find2','replace2')):
                if v.get(fk):
                    p=root+'/'+v[fk]; s=open(p).read(); assert s.count(v[fi])==1,(fk,s.count(v[fi]))
                    open(p,'w').write(s.replace(v[fi],v[rk]))
            print('applied',vid)
PY
(cd "$W/repo" && go build ./... && echo BUILD-OK)
[ "${2:-}" = "test" ] && (cd "$W/repo" && go test -count=1 -vet=off ./$(python3 -c "
import json,glob,os
for f in glob.glob('/verif/selftest/c*.json'):
    for v in json.load(open(f)):
        if v['id']=='$ID': print(os.path.dirname(v['file']) or '.')
") 2>&1 | tail -3)
EV=$(mktemp -d); VERIF_REPO="$W/repo" VERIF_OUT="$EV" /verif/check "$PROP" quick 2>&1 | grep -v "KNOWN-FINDING\|WARNING" | tail -${TAILN:-5}
rm -rf "$W" "$EV"
