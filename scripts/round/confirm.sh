#!/bin/bash
# usage: confirm.sh Cxx  — stages the agent's output for Cxx and runs scripts/seedcheck.sh on each change
P="$1"
for m in mutO mutP; do
  src=/tmp/seed8/out/$P
  [ -f $src/$m.patch.diff ] || { echo "$P-$m: no patch"; continue; }
  d=/tmp/seed8/in/$P-$m; mkdir -p $d
  cp $src/$m.patch.diff $d/patch.diff
  cp $src/${m}_demo_test.go $d/demo_test.go 2>/dev/null || cp $(ls $src/${m}*_test.go | head -1) $d/demo_test.go
  cp $src/$m.meta.txt $d/meta.txt 2>/dev/null
  /verif/scripts/seedcheck.sh $P $d /tmp/seed8/confirm-$P > $d/result.txt 2>&1
  echo "=== $P-$m"; grep -v "^WARNING" $d/result.txt | cut -c1-300
done
git -C /repo worktree remove --force /tmp/seed8/confirm-$P 2>/dev/null
