#!/bin/bash
# usage: arrival.sh Cxx-mutY  -> prints base and current reports for one change
id=$1; P=${id%%-*}; m=${id##*-}
pf=/tmp/seed8/out/$P/$m.patch.diff
echo "##### $id"
echo "--- base";    bash /tmp/seed8/scheck.sh $pf base 2>&1 | grep -v "^WARNING" | cut -c1-170
echo "--- current"; bash /tmp/seed8/scheck.sh $pf 2>&1 | grep -v "^WARNING" | cut -c1-170
