#!/bin/bash
# usage: beval.sh Cxx — applies each benign patch of Cxx on a scratch copy and runs all 20 checks
export GOFLAGS=-mod=mod GOPROXY=off GOSUMDB=off GOTOOLCHAIN=local
P="$1"
for pf in /tmp/ben6/bout/$P/ref*.patch.diff; do
  n=$(basename $pf .patch.diff)
  W=$(mktemp -d /tmp/bev-XXXX)
  rsync -a --exclude .git /repo/ "$W/repo/"
  if ! (cd "$W/repo" && git apply "$pf" 2>/dev/null || patch -p1 -s < "$pf"); then echo "$P-$n: PATCH-FAILS"; rm -rf "$W"; continue; fi
  if ! (cd "$W/repo" && go build ./... 2>&1 | head -3); then echo "$P-$n: BUILD-FAILS"; fi
  EV=$(mktemp -d)
  out=$(VERIF_REPO="$W/repo" VERIF_OUT="$EV" /verif/check all quick 2>&1 | grep -E "\[C[0-9]+ R|load error|panic" | cut -c1-330)
  if [ -z "$out" ]; then echo "$P-$n: silent"; else echo "$P-$n: ALARM"; echo "$out" | sed 's/^/     /'; fi
  rm -rf "$W" "$EV"
done
