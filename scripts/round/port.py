import subprocess, os, shutil, sys, json, tempfile
def port(dirname, edits, note):
    """edits: list of (file, old, new). Builds the patch against /repo HEAD."""
    w=tempfile.mkdtemp(prefix='port-')
    subprocess.run(['rsync','-a','--exclude','.git','/repo/',w+'/a/'],check=True)
    subprocess.run(['rsync','-a','--exclude','.git','/repo/',w+'/b/'],check=True)
    for f,old,new in edits:
        p=f'{w}/b/{f}'; s=open(p).read()
        assert s.count(old)==1,(dirname,f,s.count(old),old[:60])
        open(p,'w').write(s.replace(old,new,1))
    # build check
    env=dict(os.environ,GOFLAGS='-mod=mod',GOPROXY='off',GOSUMDB='off',GOTOOLCHAIN='local')
    r=subprocess.run(['go','build','./...'],cwd=w+'/b',env=env,capture_output=True,text=True)
    assert r.returncode==0,(dirname,r.stderr[:500])
    files=sorted({f for f,_,_ in edits})
    out=''
    for f in files:
        d=subprocess.run(['diff','-u','--label','a/'+f,'--label','b/'+f,f'{w}/a/{f}',f'{w}/b/{f}'],capture_output=True,text=True).stdout
        out+=f'diff --git a/{f} b/{f}\n'+d
    d=f'/verif/{dirname}'
    if not os.path.exists(d+'/patch.orig.diff'): shutil.copy(d+'/patch.diff',d+'/patch.orig.diff')
    open(d+'/patch.diff','w').write(out)
    mp=d+'/meta.json'; m=json.load(open(mp)); m['ported']=note; json.dump(m,open(mp,'w'),indent=1,ensure_ascii=False)
    shutil.rmtree(w)
    r=subprocess.run(['git','-C','/repo','apply','--check',d+'/patch.diff'],capture_output=True,text=True)
    print(dirname,'ok' if r.returncode==0 else 'STILL FAILS '+r.stderr[:200])
