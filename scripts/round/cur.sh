#!/bin/bash
id=$1; P=${id%%-*}; m=${id##*-}
bash /tmp/seed8/scheck.sh /tmp/seed8/out/$P/$m.patch.diff 2>&1 | grep -v "^WARNING" | cut -c1-200 > /tmp/seed8/cur-$id.txt
