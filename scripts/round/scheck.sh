#!/bin/bash
# usage: scheck.sh <patchfile> [base] — apply on scratch copy, run all 20 checks (base = checker as committed before round 3)
export GOFLAGS=-mod=mod GOPROXY=off GOSUMDB=off GOTOOLCHAIN=local GOWORK=off
W=$(mktemp -d /tmp/sck-XXXX); rsync -a --exclude .git /repo/ "$W/repo/"
(cd "$W/repo" && git apply "$1") || { echo PATCH-FAILS; rm -rf "$W"; exit 1; }
EV=$(mktemp -d)
if [ "$2" = base ]; then
  /tmp/seed8/fibercheck-base -repo "$W/repo" -out "$EV" -known /verif/known_findings.json -tier quick all 2>&1 | grep -E "\[C[0-9]+ R|load error|panic" | cut -c1-200
else
  VERIF_REPO="$W/repo" VERIF_OUT="$EV" /verif/check all quick 2>&1 | grep -E "\[C[0-9]+ R|load error|panic" | cut -c1-200
fi
rm -rf "$W" "$EV"
