import json, os, shutil, glob, re
props={json.loads(l)['id']:json.loads(l)['title'] for l in open('/verif/properties.jsonl')}
sc=json.load(open('/tmp/seed8/scheck-all.json'))
own_arrival='C02-mutP C04-mutO C04-mutP C05-mutO C05-mutP C06-mutO C06-mutP C07-mutP C08-mutP C09-mutP C10-mutP C13-mutO C14-mutO C14-mutP C16-mutP C19-mutP'.split()
sib_arrival={'C01-mutO':'C04','C03-mutP':'C02','C16-mutO':'C15'}
weak={'C03-mutO':'at arrival reported fail-closed only, and by the sibling C04 (the vacuity floor of C04-R2: one pattern-comparison flag left in register where two are confirmed)'}
dup={'C02-mutP':'same idea as earlier rounds (constraints judged on the detection path)','C05-mutO':'same idea as round-7 C09-mutN / earlier pooled-map changes','C06-mutP':'same idea as earlier Immutable-copy changes, in another condition','C07-mutP':'same edit as an earlier round (the re-check loop turned into a single if)','C10-mutP':'same idea as earlier rounds (header read ahead of the trust test)','C13-mutO':'same edit as rounds 4–7 (scratch buffer handed to Storage.Set)','C19-mutP':'same idea as earlier rounds (Vary: Origin made conditional)','C12-mutO':'same trigger as round-7 C12-mutN, the fault now in the binder helper'}
change=json.load(open('/tmp/seed8/change.json'))
for sid,(chg,needs) in sorted(change.items()):
    p,m=sid.split('-')
    src=f'/tmp/seed8/out/{p}'
    out=f'/verif/seeded/{sid}'; os.makedirs(out,exist_ok=True)
    shutil.copy(f'{src}/{m}.patch.diff',f'{out}/patch.diff')
    demos=sorted(glob.glob(f'{src}/{m}_demo*_test.go'))
    for i,d in enumerate(demos):
        shutil.copy(d,f'{out}/demo_test.go.txt' if i==0 else f'{out}/demo{i+1}_test.go.txt')
    if os.path.exists(f'{src}/{m}.meta.txt'): shutil.copy(f'{src}/{m}.meta.txt',f'{out}/agent_notes.txt')
    rf=f'/tmp/seed8/in/{sid}/result.txt'
    if os.path.exists(rf):
        txt=open(rf,errors='replace').read()
        # the static-check section of the confirmation log was produced by the checker as it was at that moment (some runs hit a half-edited tool); keep the test part only
        txt=re.sub(r'-- static check on the changed tree\n.*?(?=-- demo WITHOUT)', '', txt, flags=re.S)
        open(f'{out}/confirm_log.txt','w').write(txt)
    noise=[]
    lines=[l for l in sc[sid] if not any(n in l for n in noise)]
    lines=sorted(lines,key=lambda l:('vacuous' in l or 'anchor' in l))
    own=[l for l in lines if f'[{p} ' in l]
    meta={"id":sid,"round":8,"property":p,"breaks":p+" — "+props[p],"change":chg,"needs":needs,
          "ran":["scripts/seedcheck.sh (scratch worktree of /repo HEAD 6205f63: git apply, go build ./..., go test of the touched packages, demonstration with and without the change)","all 20 checks against a scratch copy with the change applied: once with the checker as committed before the round (arrival), once after strengthening"],
          "suite_with_change":"passes (touched packages; the sub-agent also ran ./... — only the four network-dependent middleware/proxy tests fail, as on the unchanged tree)",
          "demo":"fails with the change, passes without (confirm_log.txt)"}
    if not lines:
        meta.update({"expect":"undetected","detected":"missed at arrival and not claimed: the effect hinges on reflection inside the binder (a pointer to the map makes equalFieldType answer true, so EnableSplittingOnParsers splits the values) — no structural rule in reach states that without freezing the call's spelling",
                     "limit":"needs the binder's reflective type test and a Config flag of the application: outside what the C17 rules decide"})
    else:
        use=own[0] if own else lines[0]
        mm=re.search(r'\[(C\d+) (R\w+)\] (.*?): ',use)
        cp,rule,construct=mm.group(1),mm.group(2),mm.group(3)
        key=re.sub(r'#\d+','',construct)
        parts=[x for x in key.split(':') if x]
        ek=parts[-1] if parts else key
        if sid in own_arrival: when='as built before this round'
        elif sid in sib_arrival: when=f'as built before this round — by the sibling property {sib_arrival[sid]}, not by {p}'
        else: when=f'missed at arrival; reported after strengthening ({cp}-{rule})'
        if sid in weak: when=weak[sid]+f'; now reported by {cp}-{rule}'
        meta.update({"expect":"detected","expect_key":ek,"check_property":cp,"detected":when})
        print(sid,cp,rule,ek)
    if sid in dup: meta["duplicate_of_earlier_round"]=dup[sid]
    json.dump(meta,open(f'{out}/meta.json','w'),indent=1,ensure_ascii=False)
